#!/bin/bash
# verify_seed.sh <seed-dir>: confirm in a scratch worktree of /repo HEAD that the demo passes unpatched, fails patched,
# and that the repository's test suite still passes with the patch.  Prints a one-line JSON summary.
S=$(readlink -f "$1"); N=$(basename "$S")
W=/tmp/vs-$N-$$
git -C /repo worktree add -q "$W" HEAD || exit 2
cd "$W"
export PYTHONPATH="$W/src:$W" PYTHONWARNINGS=ignore
# the test session start generates test/dataset/ormatic_interface.py, which some demonstrations import
timeout 300 /venv/bin/python -m pytest --collect-only -q -p no:cacheprovider >/dev/null 2>&1
timeout 300 /venv/bin/python "$S/demo.py" >/tmp/vs-$N-$$.un 2>&1; un=$?
if git apply "$S/patch.diff" 2>/tmp/vs-$N-$$.ap; then ap=0; else ap=1; fi
t=$(timeout 900 /venv/bin/python -m pytest -q -p no:cacheprovider --timeout=900 2>&1 | tail -1)
timeout 300 /venv/bin/python "$S/demo.py" >/tmp/vs-$N-$$.pa 2>&1; pa=$?
cd /; git -C /repo worktree remove --force "$W"; git -C /repo worktree prune
echo "{\"seed\":\"$N\",\"applies\":$((1-ap)),\"demo_unpatched_exit\":$un,\"demo_patched_exit\":$pa,\"tests\":\"$t\"}"
rm -f /tmp/vs-$N-$$.*
