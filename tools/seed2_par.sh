#!/bin/bash
# seed2_par.sh <ID>...: take the round-2 seeds of /tmp/wt2-<ID>/_seed/{A,B} as seeded/<ID>-C and <ID>-D, remove the agents'
# worktrees, then confirm each seed in a scratch worktree and run the property's check against it in another (3 at a time).
cd /verif
L=""
for I in "$@"; do
  for p in "A C" "B D"; do set -- $p
    if [ -d /tmp/wt2-$I/_seed/$1 ]; then mkdir -p seeded/$I-$2 && cp /tmp/wt2-$I/_seed/$1/* seeded/$I-$2/ 2>/dev/null; fi
    [ -d seeded/$I-$2 ] && L="$L $I-$2"
  done
  git -C /repo worktree remove --force /tmp/wt2-$I 2>/dev/null
done
git -C /repo worktree prune
mkdir -p /tmp/seed2
echo $L | tr ' ' '\n' | xargs -P 3 -I{} bash -c 's={}; (tools/verify_seed.sh seeded/$s; timeout 2400 tools/try_seed_wt.sh seeded/$s ${s%-*} quick 2>&1 | cut -c1-400) > /tmp/seed2/$s.log 2>&1'
