#!/usr/bin/env python3
"""suggest_known.py PROP < vcheck-output : print known_findings entries for the VIOLATION cases in the output"""
import sys, re, json
prop = sys.argv[1]
out = []
seen = set()
for l in sys.stdin:
    m = re.match(r"  case=(.*?) kind=(\S+) model=(\{.*?\}) ?(.*)", l)
    if not m: continue
    case = re.sub(r"\|N(<)?=\d+$", "", m.group(1))
    key = "%s#%s" % (case, m.group(2))
    if key in seen: continue
    seen.add(key)
    out.append(dict(property=prop, status="known", key=key, what="", example_model=json.loads(m.group(3))))
print(json.dumps(out, indent=1))
