#!/bin/bash
# try_seed.sh <seed-dir> <PROP> [tier]: apply the seeded change to /repo, run the check, undo the change.
S=$(readlink -f "$1"); P=$2; T=${3:-quick}
cd /verif
git -C /repo checkout -- test/dataset/ormatic_interface.py 2>/dev/null; git -C /repo diff --quiet || { echo "REFUSING: /repo has uncommitted changes"; exit 2; }
git -C /repo apply "$S/patch.diff" || { echo "patch does not apply"; exit 2; }
./vcheck $P --tier $T > /tmp/try-$P-$$.out 2>&1; rc=$?
git -C /repo checkout -- . 
grep -c "^VIOLATION" /tmp/try-$P-$$.out | sed "s/^/violations=/"; grep "^VIOLATION\|^  case" /tmp/try-$P-$$.out | head -6; tail -1 /tmp/try-$P-$$.out; echo "exit=$rc"
rm -f /tmp/try-$P-$$.out
# restore the evidence file of the unchanged tree
git -C /verif checkout -- evidence/$P.json 2>/dev/null
