#!/usr/bin/env python3
"""seed_meta.py <seed-dir> <PROP> <detected: yes|no|...> <by-which-check/kinds> [verify-json]"""
import json, sys, os
d, prop, detected, by = sys.argv[1:5]
verify = json.loads(sys.argv[5]) if len(sys.argv) > 5 else None
notes = open(os.path.join(d, "notes.md")).read() if os.path.exists(os.path.join(d, "notes.md")) else ""
meta = dict(property=prop, seed=os.path.basename(d.rstrip("/")), origin="independent sub-agent given only the property text and a scratch worktree",
  needs_to_manifest=notes.strip()[:1500],
  confirmed=dict(how="tools/verify_seed.sh in a scratch worktree of /repo HEAD: demo.py exits 0 unpatched and 1 patched; repository test suite with the patch", result=verify),
  check_result=dict(cmd="tools/try_seed.sh %s %s" % (d, prop), detected=detected, by=by))
json.dump(meta, open(os.path.join(d, "meta.json"), "w"), indent=1)
