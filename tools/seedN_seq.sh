#!/bin/bash
# seedN_seq.sh <round> <letterA> <letterB> <ID>...: like seedN_par.sh, but one seed at a time and niced (for use while a
# thorough sweep occupies the machine).  Logs: /tmp/seed<round>/<seed>.log
cd /verif
R=$1; LA=$2; LB=$3; shift 3
L=""
for I in "$@"; do
  for p in "A $LA" "B $LB"; do set -- $p
    if [ -d /tmp/wt$R-$I/_seed/$1 ]; then mkdir -p seeded/$I-$2 && cp /tmp/wt$R-$I/_seed/$1/* seeded/$I-$2/ 2>/dev/null; fi
    [ -d seeded/$I-$2 ] && L="$L $I-$2"
  done
  git -C /repo worktree remove --force /tmp/wt$R-$I 2>/dev/null
done
git -C /repo worktree prune
mkdir -p /tmp/seed$R
for s in $L; do
  (nice -n 10 tools/verify_seed.sh seeded/$s; nice -n 10 timeout 3000 tools/try_seed_wt.sh seeded/$s ${s%-*} quick 2>&1 | grep -v "^KNOWN" | cut -c1-500) > /tmp/seed$R/$s.log 2>&1
  f=/tmp/seed$R/$s.log; echo "$s $(grep -o '"applies":[0-9],"demo_unpatched_exit":[0-9]*,"demo_patched_exit":[0-9]*' $f) $(grep -o '[0-9]* passed' $f | head -1) $(grep '^violations=\|^exit=\|does not apply' $f | tr '\n' ' ')"
done
