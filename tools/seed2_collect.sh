#!/bin/bash
# seed2_collect.sh <ID> [tier]: take the round-2 seeds of /tmp/wt2-<ID>/_seed/{A,B} as seeded/<ID>-C and <ID>-D, remove the
# worktree, confirm each in a scratch worktree and run the property's check against it.
I=$1; T=${2:-quick}
cd /verif
for p in "A C" "B D"; do set -- $p
  if [ -d /tmp/wt2-$I/_seed/$1 ]; then mkdir -p seeded/$I-$2 && cp /tmp/wt2-$I/_seed/$1/* seeded/$I-$2/; fi
done
git -C /repo worktree remove --force /tmp/wt2-$I 2>/dev/null; git -C /repo worktree prune
for v in C D; do
  [ -d seeded/$I-$v ] || continue
  tools/verify_seed.sh seeded/$I-$v
  echo "== $I-$v"; timeout 1800 tools/try_seed.sh seeded/$I-$v $I $T 2>&1 | grep -v "^KNOWN" | cut -c1-260 | tail -4
done
