#!/bin/bash
# seed_regression_par.sh [P]: confirm every kept seeded change in a scratch worktree (tools/verify_seed.sh) and run the quick
# check of its property against it in another scratch worktree (tools/try_seed_wt.sh), P at a time (default 3).
# Logs: /tmp/seedreg/<seed>.log ; summary on stdout.  /repo and the committed evidence are not touched.
cd "$(dirname "$0")/.."
P=${1:-3}
rm -rf /tmp/seedreg; mkdir -p /tmp/seedreg
ls -d seeded/*/ | xargs -n1 basename | xargs -P $P -I{} bash -c 's={}; (tools/verify_seed.sh seeded/$s; timeout 3000 tools/try_seed_wt.sh seeded/$s ${s%%-*} quick 2>&1 | grep -v "^KNOWN" | cut -c1-600) > /tmp/seedreg/$s.log 2>&1'
for f in /tmp/seedreg/*.log; do
  s=$(basename $f .log)
  echo "$s $(grep -o '"applies":[0-9],"demo_unpatched_exit":[0-9]*,"demo_patched_exit":[0-9]*' $f) $(grep -o '[0-9]* passed' $f | head -1) $(grep '^violations=\|^exit=' $f | tr '\n' ' ')"
done
