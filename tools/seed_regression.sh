#!/bin/bash
# Apply every kept seeded change in turn, run the quick check of its property, undo it; print one line per seed.
cd "$(dirname "$0")/.."
for d in seeded/*/; do
  s=$(basename $d); p=${s%%-*}
  r=$(timeout 1800 tools/try_seed.sh $d $p quick 2>&1 | grep "^violations=\|^exit=\|REFUSING\|does not apply" | tr '\n' ' ')
  echo "$s $r"
done
