#!/bin/bash
# Re-run every registered quick check on /repo's current tree and rewrite the evidence files (to be committed).
cd "$(dirname "$0")/.."
git -C /repo checkout -- test/dataset/ormatic_interface.py 2>/dev/null
rc=0
for i in $(python3 -c "import json; print(' '.join(c['property_id'] for c in json.load(open('MANIFEST.json'))['checks']))"); do
  out=$(timeout 1500 ./vcheck $i --tier quick 2>&1 | grep -v "^KNOWN" | tail -1); e=$?
  echo "$out" | cut -c1-200
  echo "$out" | grep -q "violations=0 .*errors=0" || { echo "  !! $i needs attention"; rc=1; }
done
exit $rc
