#!/usr/bin/env python3
"""Regenerate MANIFEST.json from the table below (keeps the file valid at all times)."""
import json, os, sys
HERE = os.path.dirname(os.path.dirname(os.path.abspath(__file__)))
props = [json.loads(l) for l in open(os.path.join(HERE, "properties.jsonl"))]

SYMX = "symbolic execution of the real krrood code over z3 (symx: SymInt/SymBool proxies, per-path DFS by decision-prefix replay; pc AND NOT property decided by z3; counterexamples replayed natively)"

CHECKS = {
 "C09": dict(category="model_checking", design="DESIGN.md 4 C09",
   text="Bounded symbolic model checking of the real constraint classes and the An/The evaluation loop: bounds, counts and attribute values are unbounded z3 integers and the domain size is a bounded symbolic choice, so every (constraint, n) pair with any integer bounds is decided per path by the solver; all paths inside the bound are explored.",
   note="Domains of <= 4 (quick) / <= 6 (thorough) objects in the integration cases; integer bounds only; the condition used to control the number of solutions is x.a > k (its correctness is C01). Trusted: z3, the symx proxies (validated every run against native runs on seeded values).",
   technique=SYMX),
 "C12": dict(category="model_checking", design="DESIGN.md 4 C12",
   text="Every call shape within the bound (callable kind x arity x defaults x variable/attribute/concrete per argument x positional/keyword split) is one case; argument values are unbounded z3 integers, so for each shape the solver decides, on every path of the real predicate.py/symbolic.py code, that results equal filtering with the concrete call and that the body was invoked once per candidate binding with every parameter bound to the argument written in that position.",
   note="Arity <= 2 quick / <= 3 thorough, 2 objects per domain, <= 2 variables; no *args/**kwargs or keyword-only parameters; call order not asserted. Trusted: z3, symx proxies (validated against native runs every run).",
   technique=SYMX),
 "C19": dict(category="model_checking", design="DESIGN.md 4 C19", engine="symx+symstr, CrossHair",
   text="The real from_json runs on a symbolic ASCII tag (vector of bounded symbolic character codes, every length up to the bound) against a nondeterministic import environment (every outcome importlib's contract allows x every kind of object a name can resolve to); all paths are explored and on each the solver decides that the outcome is a documented error identifying the problem or an instance of exactly the named class, also when the document is presented twice. Counterexamples are replayed against the real import system (environment realised through sys.modules). A categorical pool with real imports and CrossHair obligations on str/int/float/list/dict tags over Unicode complement it as bug hunting.",
   note="Tags <= 7 (quick) / <= 9 (thorough) ASCII characters in the exhaustive part; import_module/getattr are stubs constrained by their contract (listed in evidence.assumptions); CrossHair 'Not confirmed' is inconclusive and reported as such. Trusted: z3, symx/symstr proxies (validated against native runs), CrossHair.",
   technique="symbolic execution of the real resolver over z3 (symx with symbolic strings, environment as nondeterministic stubs); CrossHair as second engine"),
 "C01": dict(category="model_checking", design="DESIGN.md 4 C01",
   text="Every query shape of a bounded grammar (and_/or_/not_/exists/for_all nesting to depth 3 over comparisons, membership, attribute chains, indexing, calls, predicates, HasType, nested the()) with every selection is executed by the real EQL engine on symbolic domains: attribute values and literals are unbounded z3 integers, domain sizes bounded symbolic choices (incl. empty). On every path the solver decides soundness (every returned row has a satisfying assignment), completeness (every satisfying assignment's projection is returned) and row consistency against a first-order oracle built as a z3 term over the same symbolic values.",
   note="Domains of <= 2 (quick) / <= 3 (thorough) objects per variable, <= 3 variables + quantified ones, depth <= 3; integer attribute values; identity-eq and value-eq dataclasses. One known finding (union with an empty domain) is listed in known_findings.json. Trusted: z3, symx proxies (validated against native runs every run), the oracle (40 lines).",
   technique=SYMX),
 "C02": dict(category="model_checking", design="DESIGN.md 4 C02",
   text="Same engine and shapes as C01 restricted to the negation-normal conjunctive/else-if fragment: for every candidate row the solver decides that the number of times it is returned equals the number of satisfying assignments projecting onto it (z3 Sum of If), and that the(...) returns / raises NoSolutionFound / MultipleSolutionFound exactly according to that count, also for a count taken after the() stopped early.",
   note="Bounds as C01. Trusted: z3, symx proxies, the oracle.",
   technique=SYMX),
 "C08": dict(category="model_checking", design="DESIGN.md 4 C08",
   text="Rule trees are written through the public with-block API (refinement / alternative / next_rule, nesting depth <= 3, <= 6 branches, one- and two-variable bases); every branch has its own inferred type and its own symbolic threshold, attribute values are unbounded z3 integers. On every path of the real rule.py / conclusion_selector.py / engine code the solver decides, per written branch and per binding, that the number of instances of the branch's type equals what a reference ripple-down-rules reading (a z3 term) prescribes, and that each instance was built from the values of its binding.",
   note="2 objects per domain (3 in thorough one-variable cases); sibling refinements and alternatives after a next_rule are outside (their semantics are not fixed by the property). The many pre-existing tree-surgery defects are listed per (tree, branch) in known_findings.json; all other (tree, branch) pairs are fully checked. Trusted: z3, symx proxies, the 40-line reference reading.",
   technique=SYMX),
 "C11": dict(category="model_checking", design="DESIGN.md 4 C11",
   text="Each pattern form of entity_matching / match / select / match_any / match_all (scalar literal, membership, collection literal, nested match with same type / subclass / type only, nested match on a collection, existential and universal collection constraints on objects and ints, two constraints, select variants) is built through the public API and evaluated by the real match.py + engine code on symbolic data: attribute values and literals are unbounded z3 integers, collection membership is a bounded symbolic mask (with repeated elements), elements may be value-equal but distinct, the domain holds a foreign-typed element. Per path the solver decides that the result is exactly the set of domain elements of the type for which a direct Python predicate holds (and the stated multiplicity / consistency of selected parts).",
   note="0..2 (quick) / 0..3 (thorough) elements, pool of 2-3 inner objects, depth <= 2, elements of int collections bounded 0..2 (they are hashed by the engine). Trusted: z3, symx proxies, the per-pattern oracle predicates.",
   technique=SYMX),
 "C10": dict(category="model_checking", design="DESIGN.md 4 C10",
   text="(a) Every C01 query shape plus literals, predicates, symbolic functions, a rule tree and pattern matches is built with harness monitors armed (one-shot generator domains logging every element handed out, objects logging attribute reads / calls / truth tests): the log must be empty when construction returns. (b) With symbolic data and a symbolic number k of results pulled, the real engine's generators are stepped k times; per path the solver-explored data decides where the k-th result lies, and the check asserts that the k results are a prefix of a fresh identical query's results, that the outermost lazy domain was advanced exactly to the element producing the k-th result (no read-ahead), that nothing is consumed before the first next(), and the same for a second evaluation started after abandoning the first.",
   note="<= 3 objects per domain (quick); strict no-read-ahead only for the outermost domain of left-to-right nested-loop shapes; inner domains only 'nothing before the first next()'. Trusted: z3, symx proxies, the monitors.",
   technique=SYMX),
 "C03": dict(category="model_checking", design="DESIGN.md 4 C03",
   text="Nine scenario families (one query twice, two-variable query, two queries sharing a variable / a sub-expression, exists, for_all, the() then an(), rule query, rule query with refinement) are run under three modes: sequential, one evaluation nested in every step of another, and a symbolic schedule (bounded symbolic choices among start(q_i) / next(it_j) / abandon(it_j), <= 3 live iterators) - the schedule and the attribute values are symbolic variables, every feasible combination within the bound is explored on the real engine, and every evaluation's output must be a prefix of (and, when exhausted, equal to) what a fresh structurally identical query produces alone.",
   note="Schedules of <= 4 (quick) / <= 7 (thorough) steps, 2 objects per domain; single-threaded interleavings only (as the property states). Reference = the engine run alone (absolute correctness is C01/C02/C08). One known finding (nested re-evaluation of a rule query with a refinement). Trusted: z3, symx proxies.",
   technique=SYMX + "; schedules are bounded symbolic choice variables explored exhaustively"),
 "C04": dict(category="model_checking", design="DESIGN.md 4 C04",
   text="to_dao / from_dao run on symbolic object graphs against a DAO layer generated at check time by the current tree's ORMatic: the graph shape (classes incl. subclasses, parent links with self references and cycles, shared targets, ordered collections with repeats, None-ness, alternatively mapped objects) is a vector of bounded symbolic choices explored exhaustively, every scalar field is an unbounded z3 integer that flows through SQLAlchemy's instrumented attributes. Oracle: bisimulation with identity classes between original and round-tripped graph (same classes, same sharing, order, None positions) and, decided by the solver on every path, equality of all scalar fields.",
   note="2 nodes (quick) / 3 nodes (thorough), pool of 2 shared targets, collections of <= 2/3 elements; enum/datetime/str/float/bool/JSON-list values from small pools; custom TypeDecorator columns and self-referential collections outside. Trusted: z3, symx proxies (native re-run on seeded values every run), SQLAlchemy attribute instrumentation.",
   technique=SYMX),
 "C05": dict(category="exploration", design="DESIGN.md 4 C05",
   text="Bounded exhaustive exploration driven by the symx engine: the C04 graph shapes (classes incl. subclasses and a class derived through an unmapped intermediate class, parent links with cycles, shared and value-equal-but-distinct targets, collections, alternatively mapped objects, the DAO class used for loading) are bounded symbolic choices enumerated completely; every path persists to_dao(root) into sqlite through krrood's engine, loads in a NEW session, calls from_dao and compares graph isomorphism (classes, sharing, None positions, collections as sets of elements, values) and row count per table == number of distinct objects. SQLAlchemy's unit of work and sqlite are executed, not encoded - all symbolic variables are finite choices, which is why the level is exploration, not model checking.",
   note="2 nodes (quick) / 3 nodes (thorough); scalar values from small pools (incl. 0, '', False, []); sqlite only; the database is emptied (not re-created) between paths. Trusted: the isomorphism oracle, SQLAlchemy, sqlite.",
   technique="symx-driven exhaustive enumeration of a bounded shape space (solver prunes/forces choices); concrete execution of SQLAlchemy + sqlite per path"),
 "C06": dict(category="model_checking", design="DESIGN.md 4 C06",
   text="(b) A model specification is a vector of bounded symbolic choices (classes, bases, field kinds from the supported grammar, reference targets incl. self / mutual references and several collections of one target, the order the classes are given in); the solver-driven exploration enumerates every specification within the bound and runs the real generator end to end (ClassDiagram, ORMatic, generated file, import, mapper configuration, create_all), comparing the mappers with an independent reading of the dataclasses and the text of two generations. (a) The name-building templates are lifted from the generator's source by AST and evaluated on identifiers made of bounded symbolic characters; the solver decides whether two different (class, field) pairs can get the same association-table name or an association table two equal column names (unsat = none within the bound), candidates are confirmed by the real generator.",
   note="(b) <= 2 classes quick / 3 thorough, <= 2 fields per class, fixed class names; finite choice space (the solver's role is pruning and exhaustiveness). (a) identifiers of <= 4 (quick) / 6 (thorough) characters over a 9-letter alphabet. Alternative mappings / custom types are exercised by C04/C05. Trusted: z3, the independent dataclass reading, black being deterministic.",
   technique=SYMX + "; name templates lifted by AST and decided over bounded symbolic character vectors"),
 "C07": dict(category="translation_validation", design="DESIGN.md 4 C07",
   text="Programs = EQL query shapes. For each, the real translator emits its SQLAlchemy statement; the statement's expression tree is given SQL semantics (inner joins, three-valued logic, IN, LIKE/instr on concrete strings) over symbolic tables - foreign-key structure and subclass choice are bounded symbolic choices, every scalar column and literal an unbounded z3 integer - while the real in-memory engine evaluates the same query over the same data as objects under symx. On every path the solver decides 'row selected by the SQL <=> object returned in memory' (and the() fails alike) for all column values; shapes the translator cannot express must raise EQLTranslationError. The SQL semantics are validated against real sqlite on seeded databases every run, and every disagreement is replayed by persisting the objects with to_dao and executing the statement in sqlite.",
   note="<= 2 rows per table quick / 3 thorough; strings only from a small concrete pool; outer joins and implicit cross joins are reported as outside the modelled subset; rows with a NULL dereferenced relationship excluded (AttributeError in memory). Trusted: z3, symx proxies, the 150-line SQL semantics (validated against sqlite each run).",
   technique="translation validation: real translator output interpreted over symbolic tables vs real engine under symx, decided by z3; replay in sqlite"),
}
NA_REASON = "check not built yet (build in progress, see DESIGN.md section 9 for the build order)"
NA = {}

checks = []
for p in props:
    i = p["id"]
    if i in CHECKS:
        c = CHECKS[i]
        checks.append(dict(property_id=i, quick_cmd="./vcheck %s --tier quick" % i, thorough_cmd="./vcheck %s --tier thorough" % i,
            evidence_file="evidence/%s.json" % i, replay_cmd_template="./vcheck replay {path}", engine=c.get("engine", "symx"),
            level_claimed=dict(category=c["category"], text=c["text"], design_ref=c["design"]), level_note=c["note"], technique=c["technique"]))
m = dict(version=1, setup_cmd="./setup.sh",
  hooks=dict(guard="KRROOD_VERIF", enable="no source hooks: checks import /repo/src natively (vcheck exports KRROOD_VERIF=1, unused by the repository)",
     baseline_off_cmd="cd /repo && /venv/bin/python -m pytest -ra -q -p no:cacheprovider --timeout=900 --continue-on-collection-errors",
     source_commits=[], add_only=True),
  engines=[dict(name="symx", path="vlib/symx.py", serves_properties=sorted(k for k, v in CHECKS.items() if v.get("engine", "symx") == "symx"),
     kind_free_text="dynamic symbolic execution of unmodified Python over z3: proxies for ints/bools, solver-decided branches, exhaustive DFS within stated bounds, native replay of every counterexample")],
  checks=checks,
  notes="See DESIGN.md. Exit codes: 0 held, 1 reproduced violation not in known_findings.json, 3 harness error/inconclusive.",
  not_applicable=[dict(property_id=p["id"], reason=NA.get(p["id"], NA_REASON)) for p in props if p["id"] not in CHECKS])
json.dump(m, open(os.path.join(HERE, "MANIFEST.json"), "w"), indent=1)
print("checks:", [c["property_id"] for c in checks])
