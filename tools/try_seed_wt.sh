#!/bin/bash
# try_seed_wt.sh <seed-dir> <PROP> [tier]: like try_seed.sh but in a scratch worktree of /repo's HEAD (VERIF_REPO), so that
# several seeded changes can be tried in parallel and /repo and the committed evidence stay untouched.
S=$(readlink -f "$1"); P=$2; T=${3:-quick}; N=$(basename "$S")
W=/tmp/tsw-$N-$$
cd /verif
git -C /repo worktree add -q --detach "$W" HEAD || exit 2
git -C "$W" apply "$S/patch.diff" || { echo "patch does not apply"; git -C /repo worktree remove --force "$W"; exit 2; }
VERIF_REPO="$W" VERIF_OUT="$W/_out" ./vcheck $P --tier $T > "$W/_try.out" 2>&1; rc=$?
grep -c "^VIOLATION" "$W/_try.out" | sed "s/^/violations=/"; grep "^VIOLATION\|^  case" "$W/_try.out" | head -6; tail -1 "$W/_try.out"; echo "exit=$rc"
git -C /repo worktree remove --force "$W"; git -C /repo worktree prune
