"""Symbolic strings for symx: a ``str`` subclass whose value is a vector of symbolic character codes.

The length is concrete on every path (a bounded symbolic choice made at creation), every character is a
bounded symbolic integer (ASCII 1..127), so all reasoning stays in linear integer arithmetic (z3's sequence
theory was measured first and rejected: a single ``contains`` query after four nested splits took 30-80 s).

Only the string API that the code under test uses is modelled (truthiness, len, ==, ``in``, split/rsplit on a
literal one-character separator, isidentifier, startswith/endswith, concatenation); anything else raises
SymxError so that an unmodelled operation is never silently executed on the (empty) C-level value.
"""
from __future__ import annotations

import z3

from . import symx
from .symx import AND, OR, NOT, EQ, SymBool, SymInt, SymxError, is_sym


def _codes(x):
    if isinstance(x, SymStr):
        return list(x.chars)
    if isinstance(x, str):
        return [ord(c) for c in x]
    return None


def _in_ranges(c, ranges):
    return OR([AND(c >= lo, c <= hi) for lo, hi in ranges])


_ID_START = [(ord("a"), ord("z")), (ord("A"), ord("Z")), (ord("_"), ord("_"))]
_ID_CONT = _ID_START + [(ord("0"), ord("9"))]


class SymStr(str):
    __slots__ = ("chars",)

    def __new__(cls, chars):
        o = str.__new__(cls, "")
        o.chars = list(chars)
        return o

    # --- truthiness / comparison ---
    def __bool__(self):
        return len(self.chars) > 0

    def __len__(self):
        return len(self.chars)

    def _eq_term(self, o):
        oc = _codes(o)
        if oc is None or len(oc) != len(self.chars):
            return False
        return AND([EQ(a, b) for a, b in zip(self.chars, oc)])

    def __eq__(self, o):
        return self._eq_term(o)

    def __ne__(self, o):
        return NOT(self._eq_term(o))

    def __hash__(self):
        # needed by getattr(obj, <symbolic name>): CPython hashes the name for the type-dict lookup before it falls back
        # to __getattr__.  A constant hash is sound for lookups that then compare with == (-> solver); a lookup in a
        # dict whose keys are ordinary strings would silently miss, so harnesses must not route symbolic strings there.
        return str.__hash__(self)

    def _match_at(self, i, oc):
        return AND([EQ(self.chars[i + k], oc[k]) for k in range(len(oc))])

    def __contains__(self, item):
        oc = _codes(item)
        if oc is None:
            raise TypeError("'in <string>' requires string as left operand")
        n, m = len(self.chars), len(oc)
        if m == 0:
            return True
        return bool(OR([self._match_at(i, oc) for i in range(0, n - m + 1)]))

    def startswith(self, p, *a):
        oc = _codes(p)
        if len(oc) > len(self.chars):
            return False
        return self._match_at(0, oc)

    def endswith(self, p, *a):
        oc = _codes(p)
        if len(oc) > len(self.chars):
            return False
        return self._match_at(len(self.chars) - len(oc), oc)

    def isidentifier(self):
        """ASCII identifiers only (the characters are constrained to ASCII at creation)"""
        if not self.chars:
            return False
        return AND([_in_ranges(self.chars[0], _ID_START)] + [_in_ranges(c, _ID_CONT) for c in self.chars[1:]])

    def isascii(self):
        return True

    def __add__(self, o):
        oc = _codes(o)
        if oc is None:
            return NotImplemented
        return SymStr(self.chars + oc)

    def __radd__(self, o):
        oc = _codes(o)
        if oc is None:
            return NotImplemented
        return SymStr(oc + self.chars)

    # --- splitting on a literal, single-character separator ---
    @staticmethod
    def _sep(sep):
        if not isinstance(sep, str) or isinstance(sep, SymStr) or len(sep) != 1:
            raise SymxError("split/rsplit only modelled for a literal one-character separator")
        return ord(sep)

    def split(self, sep=None, maxsplit=-1):
        s = self._sep(sep)
        parts, cur, n = [], [], 0
        for c in self.chars:
            if (maxsplit < 0 or n < maxsplit) and bool(EQ(c, s)):
                parts.append(SymStr(cur))
                cur, n = [], n + 1
            else:
                cur.append(c)
        parts.append(SymStr(cur))
        return parts

    def rsplit(self, sep=None, maxsplit=-1):
        s = self._sep(sep)
        parts, cur, n = [], [], 0
        for c in reversed(self.chars):
            if (maxsplit < 0 or n < maxsplit) and bool(EQ(c, s)):
                parts.insert(0, SymStr(cur))
                cur, n = [], n + 1
            else:
                cur.insert(0, c)
        parts.insert(0, SymStr(cur))
        return parts

    # --- formatting never forks ---
    def __repr__(self):
        return "<symstr>"

    def __str__(self):
        return "<symstr>"

    def __format__(self, spec):
        return "<symstr>"

    def _unmodelled(self, *a, **k):
        raise SymxError("string operation not modelled on a symbolic string")

    def __getitem__(self, i):
        """indexing / slicing with concrete positions (the length of a symbolic string is concrete on every path)"""
        if isinstance(i, slice):
            if not all(isinstance(b, (int, type(None))) and not hasattr(b, "term") for b in (i.start, i.stop, i.step)):
                raise SymxError("slice with symbolic bounds is not modelled")
            return SymStr(self.chars[i])
        if isinstance(i, int):
            return SymStr([self.chars[i]])
        raise SymxError("string operation not modelled on a symbolic string")

    lower = upper = strip = lstrip = rstrip = replace = find = index = partition = rpartition = encode = join = _unmodelled
    __iter__ = __lt__ = __le__ = __gt__ = __ge__ = __mod__ = __mul__ = _unmodelled


def fresh_str(ctx, name, max_len, min_len=0):
    """symbolic ASCII string with min_len <= length <= max_len (a plain str rebuilt from the model in native runs)"""
    n = min_len + ctx.choice(name + "#len", max_len - min_len + 1)
    chars = [ctx.fresh_int("%s#%d" % (name, i), 1, 127) for i in range(n)]
    if not getattr(ctx, "symbolic", False):
        return "".join(chr(c) for c in chars)
    return SymStr(chars)


def model_string(model, name):
    n = int(model.get(name + "#len", 0))
    return "".join(chr(int(model.get("%s#%d" % (name, i), 1))) for i in range(64) if ("%s#%d" % (name, i)) in model)
