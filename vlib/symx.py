"""symx -- per-path symbolic execution of unmodified Python code over z3.

Symbolic scalars are proxy objects (SymInt / SymBool) wrapping z3 terms.  Whenever Python needs
a concrete truth value (``if``, ``not``, ``and``, ``filter``, ``x in list`` ...) ``__bool__`` asks the
solver which outcomes are feasible under the current path condition and records a *decision*.
Exploration is depth-first by decision-prefix replay: the harness is re-executed from scratch with
the recorded prefix plus the flipped last open decision.  The harness returns its property as z3
terms built without forking; ``path_condition AND NOT property`` is then handed to the solver:
``unsat`` = holds for every valuation on this path, ``sat`` = concrete counterexample,
``unknown`` = inconclusive (never success).

The same harness also runs under ``ConcreteCtx`` (plain Python ints, no proxies, no solver) which is
how counterexamples are replayed against the real code and how the symbolic layer is validated
(pinned symbolic run vs. native run must produce the same observation).
"""
from __future__ import annotations

import hashlib
import time
import traceback
from typing import Any, Callable, Dict, List, Optional, Tuple

import z3


class SymxError(BaseException):
    """Harness / engine problem (never a verdict).  Not an Exception subclass: code under test and harnesses that catch
    Exception must not swallow it."""


class Nondeterminism(SymxError):
    pass


class Unknown(SymxError):
    pass


class _Abort(BaseException):
    """Raised to leave a path without a verdict (infeasible assumption)."""


class _AbortBound(_Abort):
    """Path left because an unbounded symbolic int had to be concretised (hash/index) and its value lies
    outside the small window that is enumerated; the case is then reported as not exhaustive."""


UNBOUNDED_WINDOW = (0, 1, -1, 2, -2)


CTX: Optional["Ctx"] = None

# --- optional dump of decided obligations as SMT-LIB2, for re-deciding them with independent solver binaries ---
DUMP = dict(dir=None, every=0, n=0, written=0, limit=0)


def _maybe_dump(solver, negated_property, sat):
    if not DUMP["dir"]:
        return
    DUMP["n"] += 1
    if DUMP["every"] <= 0 or DUMP["n"] % DUMP["every"] or DUMP["written"] >= DUMP["limit"]:
        return
    import os

    solver.push()
    solver.add(negated_property)
    text = solver.to_smt2()
    solver.pop()
    DUMP["written"] += 1
    name = "%d_%d_%s.smt2" % (os.getpid(), DUMP["n"], "sat" if sat else "unsat")
    with open(os.path.join(DUMP["dir"], name), "w") as f:
        f.write(text)


def _decode_z3_string(s: str) -> str:
    """z3 prints non-printable characters as \\u{hex}"""
    import re

    return re.sub(r"\\u\{([0-9a-fA-F]+)\}", lambda m: chr(int(m.group(1), 16)), s)


def _key(t) -> str:
    return hashlib.blake2b(t.sexpr().encode(), digest_size=8).hexdigest()


# --------------------------------------------------------------------------------------------
# symbolic values
# --------------------------------------------------------------------------------------------
def _it(x):
    """int-term of x or None"""
    if isinstance(x, SymInt):
        return x.t
    if isinstance(x, SymBool):
        return z3.If(x.t, z3.IntVal(1), z3.IntVal(0))
    if isinstance(x, bool):
        return z3.IntVal(int(x))
    if isinstance(x, int):
        return z3.IntVal(x)
    return None


def _bt(x):
    """bool-term of x"""
    if isinstance(x, SymBool):
        return x.t
    if isinstance(x, SymInt):
        return x.t != 0
    return z3.BoolVal(bool(x))


class SymBool:
    __slots__ = ("t",)

    def __init__(self, t):
        self.t = t

    def __bool__(self):
        return CTX.branch(self.t)

    def __invert__(self):
        return SymBool(z3.Not(self.t))

    def __and__(self, o):
        return SymBool(z3.And(self.t, _bt(o)))

    __rand__ = __and__

    def __or__(self, o):
        return SymBool(z3.Or(self.t, _bt(o)))

    __ror__ = __or__

    def __xor__(self, o):
        return SymBool(z3.Xor(self.t, _bt(o)))

    __rxor__ = __xor__

    def __eq__(self, o):
        if isinstance(o, (SymBool, bool)):
            return SymBool(self.t == _bt(o))
        ot = _it(o)
        if ot is None:
            return False
        return SymBool(_it(self) == ot)

    def __ne__(self, o):
        r = self.__eq__(o)
        if r is False:
            return True
        return ~r

    def __hash__(self):
        return hash(bool(self))

    def __int__(self):
        return int(bool(self))

    def __index__(self):
        return int(bool(self))

    def __add__(self, o):
        return SymInt(_it(self) + _it(o))

    __radd__ = __add__

    def __repr__(self):
        return "<symbool>"

    __str__ = __repr__

    def __format__(self, spec):
        return "<symbool>"


class SymInt:
    __slots__ = ("t", "lo", "hi")

    def __init__(self, t, lo=None, hi=None):
        self.t = t
        self.lo = lo
        self.hi = hi

    # comparisons ---------------------------------------------------------------------------
    def __eq__(self, o):
        if type(o) is float:
            return SymBool(self.t == int(o)) if o == o and o not in (float("inf"), float("-inf")) and o.is_integer() else False
        ot = _it(o)
        if ot is None:
            return False
        return SymBool(self.t == ot)

    def __ne__(self, o):
        if type(o) is float:
            return SymBool(self.t != int(o)) if o == o and o not in (float("inf"), float("-inf")) and o.is_integer() else True
        ot = _it(o)
        if ot is None:
            return True
        return SymBool(self.t != ot)

    def _cmp(self, o, f, float_bound=None):
        if type(o) is float and float_bound is not None:
            # an integer compared with a concrete float: x < c <=> x < ceil(c), x <= c <=> x <= floor(c), ...
            import math

            if o != o:
                return False
            if o in (float("inf"), float("-inf")):
                return f(0, o)
            return SymBool(f(self.t, float_bound(math, o)))
        ot = _it(o)
        if ot is None:
            return NotImplemented
        return SymBool(f(self.t, ot))

    def __lt__(self, o):
        return self._cmp(o, lambda a, b: a < b, lambda m, c: m.ceil(c))

    def __le__(self, o):
        return self._cmp(o, lambda a, b: a <= b, lambda m, c: m.floor(c))

    def __gt__(self, o):
        return self._cmp(o, lambda a, b: a > b, lambda m, c: m.floor(c))

    def __ge__(self, o):
        return self._cmp(o, lambda a, b: a >= b, lambda m, c: m.ceil(c))

    # arithmetic ----------------------------------------------------------------------------
    def _ar(self, o, f):
        ot = _it(o)
        if ot is None:
            return NotImplemented
        return SymInt(f(self.t, ot))

    def __add__(self, o):
        return self._ar(o, lambda a, b: a + b)

    __radd__ = __add__

    def __sub__(self, o):
        return self._ar(o, lambda a, b: a - b)

    def __rsub__(self, o):
        return self._ar(o, lambda a, b: b - a)

    def __mul__(self, o):
        return self._ar(o, lambda a, b: a * b)

    __rmul__ = __mul__

    def __neg__(self):
        return SymInt(-self.t)

    def __pos__(self):
        return self

    def __abs__(self):
        return SymInt(z3.If(self.t >= 0, self.t, -self.t))

    def __floordiv__(self, o):
        # python floor division; z3 div is euclidean: equal for positive divisors
        if isinstance(o, int) and not isinstance(o, bool) and o > 0:
            return SymInt(self.t / o)
        return NotImplemented

    def __mod__(self, o):
        if isinstance(o, int) and not isinstance(o, bool) and o > 0:
            return SymInt(self.t % o)
        return NotImplemented

    def __bool__(self):
        return CTX.branch(self.t != 0)

    # concretisation ------------------------------------------------------------------------
    def concretize(self) -> int:
        return CTX.concretize(self)

    def __hash__(self):
        return hash(self.concretize())

    def __index__(self):
        return self.concretize()

    def __int__(self):
        return self.concretize()

    def __repr__(self):
        return "<symint>"

    __str__ = __repr__

    def __format__(self, spec):
        return "<symint>"


# --------------------------------------------------------------------------------------------
# fork-free combinators usable on symbolic and concrete values alike (oracles are written with
# these so that the same harness runs natively during replay)
# --------------------------------------------------------------------------------------------
def is_sym(x) -> bool:
    return isinstance(x, (SymBool, SymInt))


def AND(*xs):
    xs = [x for x in _flat(xs)]
    if any((not is_sym(x)) and (not x) for x in xs):
        return False
    sy = [x for x in xs if is_sym(x)]
    if not sy:
        return True
    return SymBool(z3.And(*[_bt(x) for x in sy])) if len(sy) > 1 else SymBool(_bt(sy[0]))


def OR(*xs):
    xs = [x for x in _flat(xs)]
    if any((not is_sym(x)) and bool(x) for x in xs):
        return True
    sy = [x for x in xs if is_sym(x)]
    if not sy:
        return False
    return SymBool(z3.Or(*[_bt(x) for x in sy])) if len(sy) > 1 else SymBool(_bt(sy[0]))


def NOT(x):
    if is_sym(x):
        return SymBool(z3.Not(_bt(x)))
    return not x


def IMPLIES(a, b):
    return OR(NOT(a), b)


def IFF(a, b):
    if is_sym(a) or is_sym(b):
        return SymBool(_bt(a) == _bt(b))
    return bool(a) == bool(b)


def EQ(a, b):
    """value equality of two scalars without forking"""
    if is_sym(a) or is_sym(b):
        ta, tb = _it(a), _it(b)
        if ta is None or tb is None:
            return False
        return SymBool(ta == tb)
    return a == b


def ITE(c, a, b):
    if is_sym(c):
        return SymInt(z3.If(_bt(c), _it(a), _it(b)))
    return a if c else b


def SUM(xs):
    xs = list(xs)
    if any(is_sym(x) for x in xs):
        if not xs:
            return 0
        return SymInt(z3.Sum([_it(x) for x in xs]))
    return sum(int(x) for x in xs)


def B2I(x):
    """bool -> 0/1 without forking"""
    if is_sym(x):
        return SymInt(z3.If(_bt(x), z3.IntVal(1), z3.IntVal(0)))
    return 1 if x else 0


def _flat(xs):
    for x in xs:
        if isinstance(x, (list, tuple)) or hasattr(x, "__next__"):
            yield from _flat(x)
        else:
            yield x


# --------------------------------------------------------------------------------------------
# contexts
# --------------------------------------------------------------------------------------------
class BaseCtx:
    symbolic = False

    def __init__(self):
        self.obs: List[Any] = []
        self.details: List[Any] = []
        self.notes: Dict[str, Any] = {}
        self.var_order: List[str] = []

    def observe(self, *v):
        """record an observable of the run (must be plain data; used by the differential validation
        and as evidence sample)"""
        self.obs.append(v if len(v) != 1 else v[0])

    def detail(self, *v):
        """extra information about the run that is not part of the compared observation (e.g. native-only facts)"""
        self.details.append(v if len(v) != 1 else v[0])

    def note(self, k, v=1):
        """increment a non-triviality counter"""
        self.notes[k] = self.notes.get(k, 0) + int(v)


class Ctx(BaseCtx):
    """symbolic context for one path"""
    symbolic = True

    def __init__(self, prefix=(), pin: Optional[Dict[str, int]] = None, check_keys=True):
        super().__init__()
        self.solver = z3.Solver()
        self.prefix = list(prefix)
        self.trace: List[Tuple[bool, bool, str]] = []  # (decision, closed, key)
        self.nq = 0
        self.solver_s = 0.0
        self.vars: Dict[str, Any] = {}
        self.pin = pin
        self.model = None  # a model of the current path condition, or None if stale
        self.check_keys = check_keys

    # variables -------------------------------------------------------------------------------
    def _register(self, name, v):
        if name in self.vars:
            raise SymxError("duplicate symbolic variable %s" % name)
        self.vars[name] = v
        self.var_order.append(name)

    def fresh_int(self, name, lo=None, hi=None):
        v = z3.Int(name)
        self._register(name, v)
        if lo is not None:
            self._add(v >= lo)
        if hi is not None:
            self._add(v <= hi)
        if self.pin is not None:
            self._add(v == int(self.pin.get(name, lo if lo is not None else 0)))
        return SymInt(v, lo, hi)

    def fresh_bool(self, name):
        v = z3.Bool(name)
        self._register(name, v)
        if self.pin is not None:
            self._add(v == bool(self.pin.get(name, False)))
        return SymBool(v)

    def choice(self, name, n: int) -> int:
        """bounded symbolic choice in range(n), concretised immediately (one decision per value)"""
        if n <= 0:
            raise SymxError("choice over empty range: " + name)
        if n == 1:
            self.var_order.append(name)
            self.vars[name] = z3.IntVal(0)
            return 0
        return self.fresh_int(name, 0, n - 1).concretize()

    def flag(self, name) -> bool:
        return bool(self.choice(name, 2))

    def assume(self, cond):
        """restrict the path to valuations satisfying cond (placed before the code it constrains)"""
        if is_sym(cond):
            t = _bt(cond)
            if not self._feasible(t):
                raise _Abort()
            self._add(t)
        elif not cond:
            raise _Abort()

    # solver ----------------------------------------------------------------------------------
    def _add(self, t):
        self.solver.add(t)
        self.model = None

    def _check(self, *extra):
        self.nq += 1
        t0 = time.perf_counter()
        r = self.solver.check(*extra)
        self.solver_s += time.perf_counter() - t0
        if r == z3.unknown:
            raise Unknown("solver returned unknown: %s" % self.solver.reason_unknown())
        return r == z3.sat

    def _feasible(self, t):
        return self._check(t)

    def _model_val(self, t):
        if self.model is None:
            if not self._check():
                raise SymxError("path condition became unsatisfiable")
            self.model = self.solver.model()
        return z3.is_true(self.model.eval(t, model_completion=True))

    def branch(self, t) -> bool:
        raw = t  # keys are taken from the unsimplified term: simplify() orders arguments by AST id, which varies
        t = z3.simplify(t)
        if z3.is_true(t):
            return True
        if z3.is_false(t):
            return False
        i = len(self.trace)
        if i < len(self.prefix):
            d, closed, key = self.prefix[i]
            if self.check_keys and key is not None:
                k = _key(raw)
                if k != key:
                    raise Nondeterminism(
                        "replayed decision %d differs from the recorded one (%s)" % (i, t.sexpr()[:200])
                    )
            self.trace.append((d, closed, key))
            self._add(t if d else z3.Not(t))
            return d
        key = _key(raw) if self.check_keys else None
        cur = self._model_val(t)  # one side is feasible for free
        other = z3.Not(t) if cur else t
        both = self._check(other)
        if both:
            # deterministic order: True first
            if cur:
                self.trace.append((True, False, key))
                self.solver.add(t)  # model stays valid
                return True
            m = self.solver.model()  # model of pc & t
            self.trace.append((True, False, key))
            self.solver.add(t)
            self.model = m
            return True
        self.trace.append((cur, True, key))
        self.solver.add(t if cur else z3.Not(t))
        return cur

    def concretize(self, x: "SymInt") -> int:
        t = z3.simplify(x.t)
        if z3.is_int_value(t):
            return t.as_long()
        lo, hi = x.lo, x.hi
        if self.pin is not None:
            if self.model is None:
                self._check()
                self.model = self.solver.model()
            return self.model.eval(x.t, model_completion=True).as_long()
        if lo is None or hi is None:
            # code under test hashes / indexes with an unbounded value: enumerate a small window exhaustively
            # and leave the rest of the value space unexplored (reported as non-exhaustive, never as success)
            for v in UNBOUNDED_WINDOW:
                if (lo is None or v >= lo) and (hi is None or v <= hi) and self.branch(x.t == v):
                    return v
            raise _AbortBound()
        if hi - lo <= 8:
            for v in range(lo, hi):
                if self.branch(x.t == v):
                    return v
            return hi
        # larger ranges: deterministic binary search (log2 decisions instead of one per value)
        while lo < hi:
            mid = (lo + hi) // 2
            if self.branch(x.t <= mid):
                hi = mid
            else:
                lo = mid + 1
        return lo

    # verdict ----------------------------------------------------------------------------------
    def model_dict(self, m) -> Dict[str, int]:
        out = {}
        for n, v in self.vars.items():
            val = m.eval(v, model_completion=True)
            if z3.is_int_value(val):
                out[n] = val.as_long()
            elif z3.is_string_value(val):
                out[n] = _decode_z3_string(val.as_string())
            else:
                out[n] = bool(z3.is_true(val))
        return out

    def counterexample(self, term) -> Optional[Dict[str, int]]:
        """model of pc & not term, or None when unsat"""
        t = z3.simplify(z3.Not(term))
        if z3.is_false(t):
            return None
        sat = self._check(t)
        _maybe_dump(self.solver, t, sat)
        if sat:
            return self.model_dict(self.solver.model())
        return None

    def any_model(self) -> Dict[str, int]:
        if not self._check():
            raise SymxError("unsat path condition")
        return self.model_dict(self.solver.model())


class ConcreteCtx(BaseCtx):
    """native run: plain ints, no solver; values come from a model (missing -> lower bound / 0)"""

    def __init__(self, values: Optional[Dict[str, int]] = None):
        super().__init__()
        self.values = dict(values or {})
        self.used: Dict[str, int] = {}

    def fresh_int(self, name, lo=None, hi=None):
        v = int(self.values.get(name, lo if lo is not None else 0))
        self.used[name] = v
        self.var_order.append(name)
        return v

    def fresh_bool(self, name):
        v = bool(self.values.get(name, False))
        self.used[name] = v
        self.var_order.append(name)
        return v

    def choice(self, name, n):
        v = int(self.values.get(name, 0))
        if not 0 <= v < n:
            raise _Abort()
        self.used[name] = v
        self.var_order.append(name)
        return v

    def flag(self, name):
        return bool(self.choice(name, 2))

    def assume(self, cond):
        if not cond:
            raise _Abort()


# --------------------------------------------------------------------------------------------
# exploration
# --------------------------------------------------------------------------------------------
def _short(obs) -> str:
    try:
        return repr(obs[-2:])[:400]
    except Exception:
        return ""


def _norm_verdict(res) -> Dict[str, Any]:
    if isinstance(res, dict):
        return res
    return {"property": res}


def explore(
    fn: Callable[[BaseCtx], Any],
    max_paths: int = 100000,
    timeout: float = 600.0,
    max_cex: int = 8,
    reset: Optional[Callable[[], None]] = None,
    check_keys: bool = True,
    cex_grace_paths: int = 400,
) -> Dict[str, Any]:
    """Explore all paths of fn.  fn(ctx) returns a verdict: a bool/SymBool or a dict kind -> bool/SymBool.

    Returns a dict with status in {holds, cex, incomplete}; ``cex`` is a list of dicts
    (kind, model, detail); exploration continues after a counterexample until max_cex distinct kinds
    have been collected so that several different violations of one case are all seen.
    """
    global CTX
    t0 = time.time()
    st = dict(paths=0, decisions=0, queries=0, solver_s=0.0, aborted=0, obligations=0, discharged=0, bound_aborts=0)
    cex: List[Dict[str, Any]] = []
    kinds_seen = set()
    obs_sample = None
    notes_total: Dict[str, int] = {}
    prefix: List[Tuple[bool, bool, str]] = []
    status = "holds"
    first_cex_at = None
    while True:
        if reset:
            reset()
        ctx = Ctx(prefix, check_keys=check_keys)
        CTX = ctx
        exc = None
        res = None
        aborted = False
        try:
            res = fn(ctx)
        except _AbortBound:
            aborted = True
            st["bound_aborts"] += 1
        except _Abort:
            aborted = True
        except SymxError:
            CTX = None
            raise
        except Exception as e:  # escaped from the code under test / harness
            exc = e
        st["paths"] += 1
        if aborted:
            st["aborted"] += 1
        elif exc is not None:
            kind = "exception:" + type(exc).__name__
            st["obligations"] += 1
            if kind not in kinds_seen:
                kinds_seen.add(kind)
                tb = traceback.extract_tb(exc.__traceback__)
                where = ["%s:%d:%s" % (f.filename.split("/")[-1], f.lineno, f.name) for f in tb[-4:]]
                cex.append(dict(kind=kind, model=ctx.any_model(), detail=str(exc)[:300], where=where))
        else:
            verdict = _norm_verdict(res)
            for kind, term in verdict.items():
                st["obligations"] += 1
                if is_sym(term):
                    m = ctx.counterexample(_bt(term))
                    if m is None:
                        st["discharged"] += 1
                    elif kind not in kinds_seen:
                        kinds_seen.add(kind)
                        cex.append(dict(kind=kind, model=m, detail=_short(ctx.obs)))
                elif term:
                    st["discharged"] += 1
                elif kind not in kinds_seen:
                    kinds_seen.add(kind)
                    cex.append(dict(kind=kind, model=ctx.any_model(), detail=_short(ctx.obs)))
            if obs_sample is None or (not obs_sample and ctx.obs):
                obs_sample = list(ctx.obs)
            for k, v in ctx.notes.items():
                notes_total[k] = notes_total.get(k, 0) + v
        st["decisions"] += len(ctx.trace)
        st["queries"] += ctx.nq
        st["solver_s"] += ctx.solver_s
        CTX = None
        # next prefix: flip the last open decision
        tr = ctx.trace
        while tr and tr[-1][1]:
            tr.pop()
        if not tr:
            break
        d, _, key = tr.pop()
        prefix = tr + [(not d, True, key)]
        if len(cex) >= max_cex:
            status = "cex-limit"
            break
        if cex and first_cex_at is None:
            first_cex_at = st["paths"]
        if first_cex_at is not None and st["paths"] - first_cex_at >= cex_grace_paths:
            # a violation is established; a bounded number of further paths was explored to see other kinds of violation
            status = "cex-limit"
            break
        if st["paths"] >= max_paths or time.time() - t0 > timeout:
            status = "incomplete"
            break
    out = dict(st)
    out["wall_s"] = time.time() - t0
    out["cex"] = cex
    out["obs_sample"] = obs_sample
    out["notes"] = notes_total
    if status == "holds" and st["bound_aborts"]:
        status = "incomplete"  # part of the value space was cut by the concretisation window
    if cex:
        out["status"] = "cex"
        out["exhaustive"] = status == "holds"
    else:
        out["status"] = status
        out["exhaustive"] = status == "holds"
    return out


def run_concrete(fn, values, reset=None) -> Dict[str, Any]:
    """native run of the harness on concrete values.  Returns dict(verdict=..., obs=..., exception=...)."""
    global CTX
    CTX = None
    if reset:
        reset()
    ctx = ConcreteCtx(values)
    try:
        res = fn(ctx)
    except _Abort:
        return dict(aborted=True, verdict={}, obs=ctx.obs, exception=None, used=ctx.used)
    except Exception as e:
        tb = traceback.extract_tb(e.__traceback__)
        where = ["%s:%d:%s" % (f.filename.split("/")[-1], f.lineno, f.name) for f in tb[-4:]]
        return dict(
            aborted=False,
            verdict={"exception:" + type(e).__name__: False},
            obs=ctx.obs,
            exception=repr(e)[:300],
            where=where,
            used=ctx.used,
        )
    v = _norm_verdict(res)
    for k, t in v.items():
        if is_sym(t):
            raise SymxError("concrete run produced a symbolic verdict")
    return dict(aborted=False, verdict={k: bool(t) for k, t in v.items()}, obs=ctx.obs + ([{"details": ctx.details}] if ctx.details else []), exception=None, used=ctx.used)


def run_pinned(fn, values, reset=None) -> Dict[str, Any]:
    """symbolic run with every symbolic variable pinned to a concrete value: the proxies flow through the
    code under test but exactly one path is feasible.  Used to validate that proxies do not perturb
    the code (observation must equal the native run's)."""
    global CTX
    if reset:
        reset()
    ctx = Ctx((), pin=dict(values), check_keys=False)
    CTX = ctx
    try:
        try:
            res = fn(ctx)
        except _Abort:
            return dict(aborted=True, verdict={}, obs=ctx.obs)
        except SymxError:
            raise
        except Exception as e:
            return dict(aborted=False, verdict={"exception:" + type(e).__name__: False}, obs=ctx.obs)
        v = {}
        for k, t in _norm_verdict(res).items():
            if is_sym(t):
                v[k] = ctx.counterexample(_bt(t)) is None
            else:
                v[k] = bool(t)
        return dict(aborted=False, verdict=v, obs=ctx.obs)
    finally:
        CTX = None
