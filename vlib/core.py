"""Common protocol: cases, parallel runner, replay, known findings, evidence, exit codes."""
from __future__ import annotations

import hashlib
import importlib
import json
import multiprocessing as mp
import os
import random
import re
import sys
import time
import traceback
from dataclasses import dataclass, field
from typing import Any, Callable, Dict, List, Optional

from . import symx

VERIF = os.path.dirname(os.path.dirname(os.path.abspath(__file__)))
# VERIF_REPO / VERIF_OUT: used by tools/ only, to try a seeded change in a scratch worktree without touching /repo or the
# committed evidence; the registered commands never set them
REPO_SRC = os.environ.get("VERIF_REPO", "/repo") + "/src/krrood"
OUT = os.environ.get("VERIF_OUT", VERIF)

EXIT_OK, EXIT_VIOLATION, EXIT_HARNESS = 0, 1, 3


@dataclass
class Case:
    name: str
    fn: Callable[[symx.BaseCtx], Any]
    key: Optional[str] = None  # canonical id used for known findings (defaults to name)
    max_paths: int = 20000
    timeout: float = 120.0
    reset: Optional[Callable[[], None]] = None
    meta: Dict[str, Any] = field(default_factory=dict)
    validate: int = 2  # number of seeded concrete valuations for the symbolic-vs-native differential run
    core: bool = True
    cex_grace: int = 400  # paths explored after the first counterexample (large where known findings exist: keep exploring)

    def __post_init__(self):
        if self.key is None:
            self.key = self.name


class RandomCtx(symx.ConcreteCtx):
    """native run on seeded random values (records what it drew)"""

    def __init__(self, rng, span=3):
        super().__init__({})
        self.rng = rng
        self.span = span

    def fresh_int(self, name, lo=None, hi=None):
        a = lo if lo is not None else -self.span
        b = hi if hi is not None else self.span
        if lo is not None and hi is None:
            b = lo + 2 * self.span
        if hi is not None and lo is None:
            a = hi - 2 * self.span
        v = self.rng.randint(a, b)
        self.used[name] = v
        self.var_order.append(name)
        return v

    def fresh_bool(self, name):
        v = bool(self.rng.getrandbits(1))
        self.used[name] = v
        self.var_order.append(name)
        return v

    def choice(self, name, n):
        v = self.rng.randrange(n)
        self.used[name] = v
        self.var_order.append(name)
        return v


# ---------------------------------------------------------------------------------------------
# worker side
# ---------------------------------------------------------------------------------------------
_CASES: List[Case] = []
_SEED = 0


def _profile_functions(fn, ctx, reset):
    seen = set()

    def prof(frame, event, arg):
        if event == "call":
            co = frame.f_code
            f = co.co_filename
            if f.startswith(REPO_SRC):
                seen.add(f[len(REPO_SRC) + 1 :] + ":" + getattr(co, "co_qualname", co.co_name))

    if reset:
        reset()
    sys.setprofile(prof)
    try:
        try:
            res = fn(ctx)
            exc = None
        except symx._Abort:
            res, exc = None, "abort"
        except Exception as e:
            res, exc = None, e
    finally:
        sys.setprofile(None)
    return seen, res, exc


def _plain(o):
    try:
        json.dumps(o)
        return o
    except Exception:
        return repr(o)


def run_case(i: int) -> Dict[str, Any]:
    case = _CASES[i]
    out: Dict[str, Any] = dict(index=i, name=case.name, key=case.key, meta=case.meta)
    t0 = time.time()
    try:
        r = symx.explore(case.fn, max_paths=case.max_paths, timeout=case.timeout, reset=case.reset, cex_grace_paths=case.cex_grace)
    except symx.SymxError as e:
        out.update(status="error", error="%s: %s" % (type(e).__name__, e), trace=traceback.format_exc()[-1500:])
        out["wall_s"] = time.time() - t0
        return out
    except BaseException as e:
        out.update(status="error", error="%s: %s" % (type(e).__name__, e), trace=traceback.format_exc()[-1500:])
        out["wall_s"] = time.time() - t0
        return out
    out.update(r)
    # replay every counterexample natively (no proxies, no solver)
    for c in r["cex"]:
        try:
            rc = symx.run_concrete(case.fn, c["model"], reset=case.reset)
            v = rc["verdict"]
            if c["kind"].startswith("exception:"):
                c["reproduced"] = c["kind"] in v
            else:
                c["reproduced"] = v.get(c["kind"], True) is False
            c["native"] = dict(verdict=v, obs=_plain(rc["obs"]), exception=rc.get("exception"), where=rc.get("where"))
        except BaseException as e:
            c["reproduced"] = False
            c["native"] = dict(error=repr(e)[:300])
    # differential validation of the symbolic layer
    validated = 0
    mismatches = []
    functions: List[str] = []
    rng = random.Random((_SEED * 1000003 + i) & 0xFFFFFFFF)
    for k in range(case.validate):
        rctx = RandomCtx(rng)
        try:
            if k == 0:
                fs, res, exc = _profile_functions(case.fn, rctx, case.reset)
                functions = sorted(fs)
                if exc == "abort":
                    continue
                nat_obs = rctx.obs
                nat_v = (
                    {"exception:" + type(exc).__name__: False}
                    if exc is not None
                    else {kk: bool(t) for kk, t in symx._norm_verdict(res).items()}
                )
            else:
                if case.reset:
                    case.reset()
                try:
                    res = case.fn(rctx)
                    nat_v = {kk: bool(t) for kk, t in symx._norm_verdict(res).items()}
                except symx._Abort:
                    continue
                except Exception as e:
                    nat_v = {"exception:" + type(e).__name__: False}
                nat_obs = rctx.obs
            pr = symx.run_pinned(case.fn, rctx.used, reset=case.reset)
            if pr.get("aborted"):
                mismatches.append(dict(values=rctx.used, why="pinned run aborted, native did not"))
                continue
            validated += 1
            # obligations that exist only in the native run (e.g. "the model of the environment agrees with the real one")
            native_only_failed = [kk for kk, ok in nat_v.items() if kk not in pr["verdict"] and not ok and not kk.startswith("exception:")]
            if native_only_failed:
                mismatches.append(dict(values=rctx.used, why="native-only obligation failed: %s" % native_only_failed, details=_plain(getattr(rctx, "details", None))))
                continue
            common = set(pr["verdict"]) & set(nat_v)
            if _plain(pr["obs"]) != _plain(nat_obs) or {kk: pr["verdict"][kk] for kk in common} != {kk: nat_v[kk] for kk in common} or ((set(pr["verdict"]) ^ set(nat_v)) and not getattr(case, "native_has_extra_obligations", False) and not case.meta.get("native_has_extra_obligations")):
                mismatches.append(
                    dict(values=rctx.used, native=[_plain(nat_obs), nat_v], pinned=[_plain(pr["obs"]), pr["verdict"]])
                )
        except symx.SymxError as e:
            mismatches.append(dict(values=rctx.used, why="engine error in pinned run: %s" % e))
        except BaseException as e:
            mismatches.append(dict(values=rctx.used, why="error: %r" % (e,)))
    out["validated"] = validated
    out["mismatches"] = mismatches
    out["functions"] = functions
    out["wall_s"] = time.time() - t0
    out["obs_sample"] = _plain(out.get("obs_sample"))
    return out


# ---------------------------------------------------------------------------------------------
# main side
# ---------------------------------------------------------------------------------------------
def load_known(prop: str) -> List[Dict[str, Any]]:
    p = os.path.join(VERIF, "known_findings.json")
    if not os.path.exists(p):
        return []
    return [e for e in json.load(open(p)) if e.get("property") == prop]


def match_known(known: List[Dict[str, Any]], fullkey: str) -> Optional[Dict[str, Any]]:
    for e in known:
        if e.get("status") != "known":
            continue  # "fixed" entries suppress nothing
        if e.get("key") == fullkey:
            return e
        if e.get("pattern") and re.fullmatch(e["pattern"], fullkey):
            return e
    return None


def write_replay(prop: str, tier: str, seed: int, case: Dict[str, Any], c: Dict[str, Any]) -> str:
    d = os.path.join(OUT, "replays", prop)
    os.makedirs(d, exist_ok=True)
    body = dict(
        property=prop,
        tier=tier,
        seed=seed,
        case=case["name"],
        key=case["key"],
        kind=c["kind"],
        model=c["model"],
        detail=c.get("detail"),
        native=c.get("native"),
        meta=case.get("meta"),
    )
    h = hashlib.blake2b(json.dumps([prop, case["key"], c["kind"]], sort_keys=True).encode(), digest_size=6).hexdigest()
    path = os.path.join(d, h + ".json")
    json.dump(body, open(path, "w"), indent=1, default=repr)
    return path


CROSS = dict(dir=None, result=None)


def _start_cross_check(tier: str, n_cases: int):
    """thorough tier: a sample of the decided path obligations is dumped as SMT-LIB2 and re-decided afterwards by the
    z3 4.8.12 and cvc5 1.0.3 binaries (independent of the z3 5.x library used for the exploration)"""
    import shutil
    import tempfile

    if tier != "thorough" or not shutil.which("z3") or os.environ.get("VERIF_NO_CROSSCHECK"):
        return
    d = tempfile.mkdtemp(prefix="verif_smt_")
    CROSS.update(dir=d)
    # workers inherit this configuration on fork; each worker dumps every k-th obligation, at most `limit` files
    symx.DUMP.update(dir=d, every=97, n=0, written=0, limit=max(4, 400 // max(1, min(16, n_cases))))


def _finish_cross_check() -> Optional[Dict[str, Any]]:
    import glob
    import shutil
    import subprocess
    from concurrent.futures import ThreadPoolExecutor

    d = CROSS.get("dir")
    if not d:
        return None
    symx.DUMP.update(dir=None)
    files = sorted(glob.glob(os.path.join(d, "*.smt2")))[:400]
    cvc5 = shutil.which("cvc5")

    def decide(f):
        exp = "unsat" if f.endswith("_unsat.smt2") else "sat"
        text = open(f).read()
        out = {}
        try:
            r = subprocess.run(["z3", "-smt2", "-T:20", f], capture_output=True, text=True, timeout=40)
            out["z3-4.8"] = "error" if "(error" in r.stdout else (r.stdout.split() or ["?"])[0]
        except Exception:
            out["z3-4.8"] = "timeout"
        if cvc5:
            g = f + ".cvc5.smt2"
            with open(g, "w") as h:
                h.write("(set-logic ALL)\n" + text)
            try:
                r = subprocess.run([cvc5, "--tlimit=20000", g], capture_output=True, text=True, timeout=40)
                out["cvc5"] = "error" if "(error" in r.stdout + r.stderr else (r.stdout.split() or ["?"])[0]
            except Exception:
                out["cvc5"] = "timeout"
        return exp, out

    res = dict(obligations_rechecked=len(files), agree=0, disagree=[], inconclusive=0, solvers=["z3 4.8.12 (/usr/bin/z3)"] + (["cvc5 1.0.3"] if cvc5 else []))
    with ThreadPoolExecutor(8) as ex:
        for f, (exp, out) in zip(files, ex.map(decide, files)):
            for solver, ans in out.items():
                if ans == exp:
                    res["agree"] += 1
                elif ans in ("sat", "unsat"):
                    res["disagree"].append(dict(file=os.path.basename(f), solver=solver, expected=exp, answered=ans))
                else:
                    res["inconclusive"] += 1
    shutil.rmtree(d, ignore_errors=True)
    CROSS.update(dir=None, result=res)
    return res


def run_cases(cases: List[Case], seed: int, jobs: int, recycle: int = 40) -> List[Dict[str, Any]]:
    global _CASES, _SEED
    _CASES = cases
    _SEED = seed
    if not cases:
        return []
    if os.environ.get("VERIF_TIER_ACTIVE", "") == "thorough":
        # the thorough tier of one property is sized for about 40 min of wall time on the configured number of workers even if
        # every case ran into its budget: a case that does is reported incomplete (never as success)
        cap = max(300.0, jobs * 2400.0 / len(cases))
        for c in cases:
            c.timeout = min(c.timeout, cap)
    _start_cross_check(os.environ.get("VERIF_TIER_ACTIVE", ""), len(cases))
    try:
        return _run_cases(cases, seed, jobs, recycle)
    finally:
        _finish_cross_check()


def _run_cases(cases: List[Case], seed: int, jobs: int, recycle: int = 40) -> List[Dict[str, Any]]:
    if jobs <= 1 or len(cases) == 1:
        return [run_case(i) for i in range(len(cases))]
    ctx = mp.get_context("fork")
    with ctx.Pool(min(jobs, len(cases)), maxtasksperchild=recycle) as pool:
        res = []
        for r in pool.imap(run_case, range(len(cases)), chunksize=1):
            res.append(r)
            if os.environ.get("VERIF_PROGRESS"):
                print("[%s] done %d/%d %s %.0fs %s" % (time.strftime("%H:%M:%S"), len(res), len(cases), r.get("name"), r.get("wall_s", 0), r.get("status", "")), file=sys.stderr, flush=True)
    return res


def finish(
    prop: str,
    tier: str,
    seed: int,
    level: str,
    results: List[Dict[str, Any]],
    describe: Dict[str, Any],
    t0: float,
    extra: Optional[Dict[str, Any]] = None,
    extra_findings: Optional[List[Dict[str, Any]]] = None,
) -> int:
    """Turn case results into stdout lines, evidence file and exit code.

    extra_findings: violations found by non-symx machinery (direct SMT encodings, CrossHair):
    dicts with key, kind, reproduced, model, detail, native.
    """
    known = load_known(prop)
    violations = 0
    harness_errors: List[str] = []
    known_hit: Dict[str, Dict[str, Any]] = {}
    incomplete = []
    lines: List[str] = []
    cex_records = []
    tot = dict(paths=0, decisions=0, queries=0, solver_s=0.0, obligations=0, discharged=0, validated=0, aborted=0)
    functions = set()
    nontrivial = 0
    samples = []
    notes_total: Dict[str, int] = {}
    for r in results:
        if r.get("status") == "error":
            harness_errors.append("%s: %s" % (r["name"], r.get("error")))
            continue
        for k in tot:
            tot[k] += r.get(k, 0)
        functions.update(r.get("functions", []))
        for k, v in (r.get("notes") or {}).items():
            notes_total[k] = notes_total.get(k, 0) + v
        if r.get("mismatches"):
            harness_errors.append("%s: symbolic run differs from native run: %s" % (r["name"], json.dumps(r["mismatches"][0], default=repr)[:600]))
        if r.get("status") == "incomplete" or (r.get("status") == "cex" and not r.get("exhaustive")):
            incomplete.append(r["name"])
        if r.get("paths", 0) - r.get("aborted", 0) >= 2 and (r.get("notes") or {}).get("nonempty", 1) > 0:
            nontrivial += 1
        if len(samples) < 6 and r.get("obs_sample") is not None:
            samples.append(dict(case=r["name"], paths=r.get("paths"), status=r.get("status"), observation_of_one_path=r.get("obs_sample")))
        for c in r.get("cex", []):
            fullkey = "%s#%s" % (r["key"], c["kind"])
            rec = dict(case=r["name"], key=fullkey, model=c["model"], reproduced=c.get("reproduced"), detail=c.get("detail"), where=c.get("where"))
            cex_records.append(rec)
            if not c.get("reproduced"):
                if (r.get("meta") or {}).get("solver_finds_candidates_real_code_confirms"):
                    # the symbolic obligation only proposes candidates (e.g. colliding names); whether they are a defect is
                    # decided by running the real code on them -- a candidate that the real code handles is no finding
                    rec["dismissed_by_real_code"] = True
                    continue
                e = match_known(known, fullkey)
                if e is not None:
                    # a listed finding whose symbolic counterexample did not show in the native re-run this time (behaviour
                    # that depends on memory addresses, e.g. the iteration order of a set of objects): still the listed finding
                    known_hit.setdefault(e.get("key") or e.get("pattern"), e)
                    rec["known"] = e.get("key") or e.get("pattern")
                    rec["note"] = "did not reproduce in the native re-run of this run"
                    continue
                harness_errors.append("%s: counterexample %s did not reproduce natively: %s" % (r["name"], c["kind"], json.dumps(c.get("native"), default=repr)[:400]))
                continue
            e = match_known(known, fullkey)
            if e is not None:
                known_hit.setdefault(e.get("key") or e.get("pattern"), e)
                rec["known"] = e.get("key") or e.get("pattern")
            else:
                path = write_replay(prop, tier, seed, r, c)
                violations += 1
                lines.append("VIOLATION property=%s replay=%s" % (prop, path))
                lines.append("  case=%s kind=%s model=%s %s" % (r["name"], c["kind"], json.dumps(c["model"]), (c.get("detail") or "")[:200]))
    for f in extra_findings or []:
        fullkey = "%s#%s" % (f["key"], f["kind"])
        rec = dict(case=f["key"], key=fullkey, model=f.get("model"), reproduced=f.get("reproduced"), detail=f.get("detail"))
        cex_records.append(rec)
        if not f.get("reproduced"):
            harness_errors.append("%s: finding did not reproduce on the real code: %s" % (fullkey, str(f.get("detail"))[:300]))
            continue
        e = match_known(known, fullkey)
        if e is not None:
            known_hit.setdefault(e.get("key") or e.get("pattern"), e)
            rec["known"] = e.get("key") or e.get("pattern")
        else:
            path = write_replay(prop, tier, seed, dict(name=f["key"], key=f["key"], meta=f.get("meta")), dict(kind=f["kind"], model=f.get("model"), detail=f.get("detail"), native=f.get("native")))
            violations += 1
            lines.append("VIOLATION property=%s replay=%s" % (prop, path))
            lines.append("  case=%s kind=%s model=%s %s" % (f["key"], f["kind"], json.dumps(f.get("model"), default=repr), str(f.get("detail") or "")[:200]))
    for k, e in known_hit.items():
        lines.append("KNOWN-FINDING: property=%s %s: %s" % (prop, k, e.get("what", "")))
    extra = extra or {}
    wall = time.time() - t0
    n_cases = len(results) + int(extra.get("extra_cases", 0))
    exhaustive = not incomplete and not harness_errors and bool(extra.get("exhaustive", True))
    cov: Dict[str, Any] = dict(
        evaluations=max(1, tot["paths"] + int(extra.get("extra_evaluations", 0))),
        distinct_nontrivial=nontrivial + int(extra.get("extra_nontrivial", 0)),
        rule=describe.get("rule", ""),
        samples=(samples + list(extra.get("samples", [])))[:10] or [dict(note="no case produced an observation")],
        states=max(1, tot["paths"]),
        transitions=max(1, tot["decisions"]),
        traces_validated_against_impl=tot["validated"] + int(extra.get("extra_validated", 0)),
        obligations=tot["obligations"] + int(extra.get("extra_obligations", 0)),
        discharged=tot["discharged"] + int(extra.get("extra_discharged", 0)),
        programs=max(1, n_cases),
        disagreements_checked=len(cex_records),
        exhaustive=exhaustive,
        cases=n_cases,
        cases_incomplete=incomplete[:50],
        solver_queries=tot["queries"] + int(extra.get("extra_queries", 0)),
        solver_seconds=round(tot["solver_s"] + float(extra.get("extra_solver_s", 0.0)), 3),
        paths_aborted_by_assumption=tot["aborted"],
        functions_encoded=sorted(functions | set(extra.get("functions", []))),
        bounds=describe.get("bounds", {}),
        outside_claim=describe.get("outside", []),
        nontriviality_counters=notes_total,
        counterexamples=cex_records[:40],
        known_findings_matched=sorted(known_hit.keys()),
        harness_errors=harness_errors[:20],
        engine=describe.get("engine", "symx (per-path symbolic execution over z3 %s)" % symx.z3.get_version_string()),
        explanation=describe.get("explanation", ""),
    )
    for k, v in (extra.get("coverage") or {}).items():
        cov[k] = v
    if CROSS.get("result"):
        cov["cross_check_with_independent_solvers"] = CROSS["result"]
        if CROSS["result"]["disagree"]:
            harness_errors.append("independent solver disagrees on %d dumped obligations: %s" % (len(CROSS["result"]["disagree"]), CROSS["result"]["disagree"][:2]))
    ev = dict(
        property_id=prop,
        tier=tier,
        seed=seed,
        level=level,
        coverage=cov,
        assumptions=describe.get("assumptions", []),
        wall_s=round(wall, 2),
        violations=violations,
    )
    os.makedirs(os.path.join(OUT, "evidence"), exist_ok=True)
    json.dump(ev, open(os.path.join(OUT, "evidence", prop + ".json"), "w"), indent=1, default=repr)
    shown = 0
    cap = 10**9 if os.environ.get('VCHECK_ALL') else 60
    for l in lines:
        if l.startswith("VIOLATION") or l.startswith("  case"):
            shown += 1
            if shown > cap:
                continue
        print(l)
    if shown > cap:
        print("... %d more VIOLATION lines suppressed (see evidence counterexamples / replays)" % ((shown - cap) // 2))
    print(
        "%s %s: cases=%d paths=%d decisions=%d queries=%d solver_s=%.1f obligations=%d discharged=%d validated=%d "
        "violations=%d known=%d incomplete=%d errors=%d wall=%.1fs"
        % (prop, tier, n_cases, tot["paths"], tot["decisions"], cov["solver_queries"], cov["solver_seconds"], cov["obligations"], cov["discharged"], cov["traces_validated_against_impl"], violations, len(known_hit), len(incomplete), len(harness_errors), wall)
    )
    if harness_errors:
        for h in harness_errors[:10]:
            print("HARNESS-ERROR %s" % h)
    sys.stdout.flush()
    if violations:
        return EXIT_VIOLATION
    if harness_errors:
        return EXIT_HARNESS
    return EXIT_OK


def select_cases(cases: List[Case], tier: str, seed: int, extra_quick: int = 0) -> List[Case]:
    """quick = core cases + a seeded slice of the non-core ones; thorough = all"""
    if tier == "thorough":
        return cases
    core = [c for c in cases if c.core]
    rest = [c for c in cases if not c.core]
    rng = random.Random(seed)
    rng.shuffle(rest)
    return core + rest[:extra_quick]


def main_for(module_name: str, argv: List[str]) -> int:
    import argparse

    ap = argparse.ArgumentParser()
    ap.add_argument("--tier", default=os.environ.get("VERIF_TIER", "quick"))
    ap.add_argument("--jobs", type=int, default=int(os.environ.get("VERIF_JOBS", "16")))
    ap.add_argument("--only", default=None)
    ap.add_argument("--replay", default=None)
    a = ap.parse_args(argv)
    seed = int(os.environ.get("VERIF_SEED", "0") or 0)
    os.environ["VERIF_TIER_ACTIVE"] = a.tier
    mod = importlib.import_module(module_name)
    if a.replay:
        return replay(mod, a.replay)
    t0 = time.time()
    if hasattr(mod, "run"):
        return mod.run(a.tier, seed, a.jobs, a.only)
    cases = mod.cases(a.tier, seed)
    if a.only:
        cases = [c for c in cases if a.only in c.name]
    results = run_cases(cases, seed, a.jobs)
    return finish(mod.PROPERTY, a.tier, seed, mod.LEVEL, results, mod.describe(a.tier), t0)


def replay(mod, path: str) -> int:
    body = json.load(open(path))
    if hasattr(mod, "replay"):
        return mod.replay(body)
    cases = mod.cases(body.get("tier", "thorough"), body.get("seed", 0))
    cs = [c for c in cases if c.name == body["case"]]
    if not cs:
        cases = mod.cases("thorough", body.get("seed", 0))
        cs = [c for c in cases if c.name == body["case"]]
    if not cs:
        print("replay: case %r not found" % body["case"])
        return EXIT_HARNESS
    rc = symx.run_concrete(cs[0].fn, body["model"], reset=cs[0].reset)
    print(json.dumps(dict(case=body["case"], kind=body["kind"], native=dict(verdict=rc["verdict"], obs=_plain(rc["obs"]), exception=rc.get("exception"), where=rc.get("where"))), indent=1, default=repr))
    v = rc["verdict"]
    bad = (body["kind"] in v) if body["kind"].startswith("exception:") else (v.get(body["kind"], True) is False)
    if bad:
        print("VIOLATION property=%s replay=%s" % (body["property"], path))
        return EXIT_VIOLATION
    print("replay: property holds on this input now")
    return EXIT_OK
