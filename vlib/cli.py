"""vcheck CLI: ./vcheck C09 --tier quick | ./vcheck replay <file>"""
import glob
import json
import os
import sys

from . import core


def module_for(prop: str) -> str:
    here = os.path.join(core.VERIF, "harness")
    m = glob.glob(os.path.join(here, prop.lower() + "_*.py"))
    if not m:
        print("HARNESS-ERROR no harness for %s" % prop)
        sys.exit(core.EXIT_HARNESS)
    return "harness." + os.path.basename(m[0])[:-3]


def main():
    argv = sys.argv[1:]
    if not argv:
        print(__doc__)
        return 2
    if argv[0] == "replay":
        body = json.load(open(argv[1]))
        return core.main_for(module_for(body["property"]), ["--replay", argv[1]])
    return core.main_for(module_for(argv[0]), argv[1:])


if __name__ == "__main__":
    sys.exit(main())
