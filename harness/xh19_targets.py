"""CrossHair targets for C19: every function's postcondition is the property; CrossHair searches for a counterexample
by symbolic execution of the real SubclassJSONSerializer.from_json with z3 (symbolic str / int / float / list / dict tags)."""
from __future__ import annotations

import uuid
from typing import Dict, List, Optional, Union

from krrood.adapters.json_serializer import (
    JSON_TYPE_NAME,
    JSONSerializationError,
    SubclassJSONSerializer,
    from_json,
)

MODULES = ["json", "uuid", "os.path", "typing", "krrood.adapters.json_serializer", "harness.xh19_targets", "builtins"]
NAMES = ["dumps", "UUID", "path", "T", "Any", "SubclassJSONSerializer", "Leaf", "NotSerializable", "int", "MODULES", "nope", "", "a.b"]


class Leaf(SubclassJSONSerializer):
    def __init__(self, v=0):
        self.v = v

    def to_json(self):
        return {**super().to_json(), "v": self.v}

    @classmethod
    def _from_json(cls, data, **kwargs):
        return cls(data.get("v", 0))


class NotSerializable:
    pass


def _exact(r, tag) -> bool:
    """r is an instance of exactly the class the tag names"""
    return isinstance(tag, str) and (type(r).__module__ + "." + type(r).__name__ == tag)


def _outcome(tag) -> bool:
    """True iff from_json fails with a documented error or returns an instance of exactly the named class;
    any other exception propagates (CrossHair reports it)."""
    try:
        r = from_json({JSON_TYPE_NAME: tag, "value": "12345678123456781234567812345678"})
    except JSONSerializationError:
        return True
    return _exact(r, tag)


def tag_str(tag: str) -> bool:
    """
    pre: len(tag) <= 4
    post: _
    """
    return _outcome(tag)


def tag_str_twin(tag: str) -> bool:
    """
    pre: len(tag) <= 4
    post: not _
    """
    return _outcome(tag)


def tag_int(tag: int) -> bool:
    """
    post: _
    """
    return _outcome(tag)


def tag_float(tag: float) -> bool:
    """
    post: _
    """
    return _outcome(tag)


def tag_bool_none(tag: Optional[bool]) -> bool:
    """
    post: _
    """
    return _outcome(tag)


def tag_list(tag: List[str]) -> bool:
    """
    pre: len(tag) <= 2
    post: _
    """
    return _outcome(tag)


def tag_dict(tag: Dict[str, int]) -> bool:
    """
    pre: len(tag) <= 2
    post: _
    """
    return _outcome(tag)


def tag_module_suffix(i: int, suffix: str) -> bool:
    """
    pre: 0 <= i < 7 and len(suffix) <= 3
    post: _
    """
    return _outcome(MODULES[i] + "." + suffix)


def tag_module_suffix_twin(i: int, suffix: str) -> bool:
    """
    pre: 0 <= i < 7 and len(suffix) <= 3
    post: not _
    """
    return _outcome(MODULES[i] + "." + suffix)


def tag_prefix_module(prefix: str, i: int, j: int) -> bool:
    """
    pre: 0 <= i < 7 and 0 <= j < 13 and len(prefix) <= 2
    post: _
    """
    return _outcome(prefix + MODULES[i] + "." + NAMES[j])


def tag_nested(tag: str) -> bool:
    """
    pre: len(tag) <= 3
    post: _
    """
    try:
        r = from_json([1, {JSON_TYPE_NAME: tag}, [None, {JSON_TYPE_NAME: "uuid.UUID", "value": "12345678123456781234567812345678"}]])
    except JSONSerializationError:
        return True
    return isinstance(r, list) and len(r) == 3 and _exact(r[1], tag)


OBLIGATIONS = ["tag_str", "tag_int", "tag_float", "tag_bool_none", "tag_list", "tag_dict", "tag_module_suffix", "tag_prefix_module", "tag_nested"]
TWINS = ["tag_str_twin", "tag_module_suffix_twin"]
