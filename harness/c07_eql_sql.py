"""C07 -- an EQL query translated to SQL selects the same entities as in-memory evaluation (translation validation).

For every query shape the REAL translator (eql_to_sql) produces its SQLAlchemy statement; the statement's expression tree
(FROM / JOIN / ON / WHERE, bind parameters) is given SQL semantics (inner joins, three-valued logic) over SYMBOLIC tables:
the foreign-key structure is a bounded symbolic choice, every scalar column and every literal is an unbounded z3 integer.
The same data as objects is evaluated by the REAL in-memory engine under symx; on every path the solver decides
"row i selected by the SQL  <=>  object i returned in memory" for all column values.  The SQL semantics used here are
validated on every run against real sqlite on seeded concrete databases, and every counterexample is replayed by persisting
the objects with to_dao into sqlite and executing the translated statement there.
"""
from __future__ import annotations

import operator as op
from typing import Any, Dict, List

from vlib import symx
from vlib.core import Case
from vlib.symx import AND, OR, NOT, IMPLIES, IFF, EQ, SUM, B2I, is_sym

from krrood.entity_query_language.entity import entity, let, and_, or_, not_, in_, contains, exists, for_all, set_of
from krrood.entity_query_language.quantify_entity import an, the
from krrood.entity_query_language.predicate import HasType
from krrood.entity_query_language.failures import NoSolutionFound, MultipleSolutionFound

from . import ormmodel as M
from . import ormgen
from .eqlworld import eql_reset, index_of

PROPERTY = "C07"
LEVEL = "translation_validation"


# ---------------------------------------------------------------------------------------------
# symbolic database = objects + the rows to_dao would store for them
# ---------------------------------------------------------------------------------------------
class DB:
    def __init__(self, ctx, R, need_leaf, need_parent, with_sub, rich_only=False, lean=False):
        self.ctx = ctx
        self.riches = []
        self.leaves = []
        self.nodes = []
        if rich_only:
            return
        for j in range(0 if lean else R):  # lean: the shape does not look at leaves
            k = ctx.choice("leafclass%d" % j, 2)
            self.leaves.append(M.Leaf(ctx.fresh_int("lv%d" % j)) if k == 0 else M.SubLeaf(ctx.fresh_int("lv%d" % j), ctx.fresh_int("lw%d" % j)))
        self.nodes = []
        n = 1 + ctx.choice("n_nodes", R)
        for i in range(n):
            if with_sub and ctx.flag("sub%d" % i):
                self.nodes.append(M.SubNode(ctx.fresh_int("tag%d" % i), extra=ctx.fresh_int("extra%d" % i)))
            else:
                self.nodes.append(M.Node(ctx.fresh_int("tag%d" % i)))
        for i, nd in enumerate(self.nodes):
            if lean:
                nd.leaf = None
            elif need_leaf:
                nd.leaf = self.leaves[ctx.choice("leaf%d" % i, R)]  # dereferenced relationships are non-NULL (precondition)
            else:
                l = ctx.choice("leaf%d" % i, R + 1) - 1
                nd.leaf = self.leaves[l] if l >= 0 else None
            if need_parent:
                nd.parent = self.nodes[ctx.choice("parent%d" % i, n)]
            else:
                p = ctx.choice("parent%d" % i, n + 1) - 1
                nd.parent = self.nodes[p] if p >= 0 else None

    TEXTS = ["Body1", "body1", "B_dy1", "Body%", "x", ""]

    def add_riches(self, ctx, R, with_owner=False):
        if with_owner:  # (the shape does not look at the texts)
            self.riches = [M.Rich(number=ctx.fresh_int("num%d" % i), text="x") for i in range(1 + ctx.choice("n_rich", R))]
        else:
            self.riches = [M.Rich(number=ctx.fresh_int("num%d" % i), text=self.TEXTS[ctx.choice("text%d" % i, len(self.TEXTS))]) for i in range(1 + ctx.choice("n_rich", R))]
        if with_owner:
            for i, r in enumerate(self.riches):
                r.owner = self.nodes[ctx.choice("owner%d" % i, len(self.nodes))]  # joined relationships are non-NULL (precondition)

    def tables(self) -> Dict[str, List[Dict[str, Any]]]:
        """rows as the generated layer stores them (joined-table inheritance, FK columns)"""
        lid = {id(l): j + 1 for j, l in enumerate(self.leaves)}
        nid = {id(n): i + 1 for i, n in enumerate(self.nodes)}
        t = {"LeafDAO": [], "SubLeafDAO": [], "SubSubLeafDAO": [], "DeepLeafDAO": [], "NodeDAO": [], "SubNodeDAO": [], "VecMappedDAO": [], "RichDAO": []}
        for l in self.leaves:
            t["LeafDAO"].append(dict(database_id=lid[id(l)], v=l.v, polymorphic_type=type(l).__name__ + "DAO"))
            if isinstance(l, M.SubLeaf):
                t["SubLeafDAO"].append(dict(database_id=lid[id(l)], w=l.w))
        for n in self.nodes:
            t["NodeDAO"].append(dict(database_id=nid[id(n)], tag=n.tag, polymorphic_type=type(n).__name__ + "DAO",
                                     leaf_id=lid[id(n.leaf)] if n.leaf is not None else None,
                                     parent_id=nid[id(n.parent)] if n.parent is not None else None, vec_id=None))
            if isinstance(n, M.SubNode):
                t["SubNodeDAO"].append(dict(database_id=nid[id(n)], extra=n.extra))
        for i, r in enumerate(getattr(self, "riches", [])):
            t["RichDAO"].append(dict(database_id=i + 1, number=r.number, text=r.text, ratio=r.ratio, opt=r.opt, owner_id=nid[id(r.owner)] if r.owner is not None else None))
        return t


# ---------------------------------------------------------------------------------------------
# SQL semantics over (symbolic) rows for the statement the translator built
# ---------------------------------------------------------------------------------------------
class NotModelled(Exception):
    pass


NULL = None


def _table_name(sel):
    from sqlalchemy.sql.selectable import Alias, TableClause

    if isinstance(sel, Alias):
        return _table_name(sel.element)
    if isinstance(sel, TableClause):
        return sel.name
    raise NotModelled("FROM element %r" % type(sel).__name__)


def eval_from(fr, tables):
    from sqlalchemy.sql.selectable import Join

    if isinstance(fr, Join):
        if fr.isouter or fr.full:
            raise NotModelled("outer join")
        out = []
        for l in eval_from(fr.left, tables):
            for r in eval_from(fr.right, tables):
                env = {**l, **r}
                c = eval_expr(fr.onclause, env)
                if is_sym(c):
                    raise NotModelled("join condition over symbolic columns")
                if c is True:
                    out.append(env)
        return out
    name = _table_name(fr)
    return [{fr: row} for row in tables[name]]


_CMP = {"eq": op.eq, "ne": op.ne, "lt": op.lt, "le": op.le, "gt": op.gt, "ge": op.ge}


def eval_expr(e, env):
    """three-valued: returns True/False/NULL(None) or a symbolic boolean; scalars: int / SymInt / str / None"""
    from sqlalchemy.sql import elements as E
    from sqlalchemy.sql import operators as O

    if isinstance(e, E.Grouping):
        return eval_expr(e.element, env)
    if isinstance(e, E.ColumnClause) and getattr(e, "table", None) is not None:
        for sel, row in env.items():
            if sel is e.table or str(getattr(sel, "name", None)) == str(getattr(e.table, "name", "")):
                return row[e.name]
        raise NotModelled("column %s of a table that is not in FROM (implicit cross join)" % e)
    if isinstance(e, E.BindParameter):
        return e.value
    if isinstance(e, (E.True_,)):
        return True
    if isinstance(e, (E.False_,)):
        return False
    if isinstance(e, E.Null):
        return NULL
    if isinstance(e, E.BooleanClauseList):
        vals = [eval_expr(c, env) for c in e.clauses]
        if e.operator is O.and_:
            if any(v is False for v in vals):
                return False
            known = [v for v in vals if v is not NULL]
            r = AND(known) if known else True
            if any(v is NULL for v in vals):
                # NULL AND x: false if x false else NULL -> never true
                return AND(False, r) if not is_sym(r) else False if False else _null_and(r)
            return r
        if e.operator is O.or_:
            if any(v is True for v in vals):
                return True
            known = [v for v in vals if v is not NULL]
            return OR(known) if known else NULL  # NULL OR x: true iff x true (NULL rows are not selected)
        raise NotModelled("clause list operator %r" % e.operator)
    if isinstance(e, E.UnaryExpression):
        if e.operator is O.inv:
            v = eval_expr(e.element, env)
            return NULL if v is NULL else NOT(v)
        raise NotModelled("unary %r" % e.operator)
    if isinstance(e, E.BinaryExpression):
        name = getattr(e.operator, "__name__", str(e.operator))
        if name in ("between_op", "not_between_op"):
            l = eval_expr(e.left, env)
            bounds = [eval_expr(c, env) for c in e.right.clauses]
            if l is NULL or any(b is NULL for b in bounds) or len(bounds) != 2:
                return NULL
            res = AND(l >= bounds[0], l <= bounds[1])
            return res if name == "between_op" else NOT(res)
        l, r = eval_expr(e.left, env), eval_expr(e.right, env)
        if name in _CMP:
            if l is NULL or r is NULL:
                return NULL
            if name == "eq":
                return EQ(l, r) if (is_sym(l) or is_sym(r)) else l == r
            if name == "ne":
                return NOT(EQ(l, r)) if (is_sym(l) or is_sym(r)) else l != r
            return _CMP[name](l, r)
        if name in ("in_op", "not_in_op"):
            if l is NULL:
                return NULL
            vals = list(r) if isinstance(r, (list, tuple, set)) else [r]
            res = OR([EQ(l, x) if (is_sym(l) or is_sym(x)) else l == x for x in vals]) if vals else False
            return res if name == "in_op" else NOT(res)
        if name in ("is_distinct_from", "is_not_distinct_from"):
            # NULL-safe comparison: never NULL
            if l is NULL or r is NULL:
                res = not (l is NULL and r is NULL)
            else:
                res = NOT(EQ(l, r)) if (is_sym(l) or is_sym(r)) else l != r
            return res if name == "is_distinct_from" else NOT(res)
        if name in ("is_", "is_not"):
            res = (l is NULL) if r is NULL else (EQ(l, r) if l is not NULL else False)
            return res if name == "is_" else NOT(res)
        if name in ("like_op", "not_like_op", "contains_op", "not_contains_op"):
            if l is NULL or r is NULL:
                return NULL
            if is_sym(l) or is_sym(r):
                raise NotModelled("LIKE on symbolic values")
            pat = str(r) if name.endswith("like_op") else "%" + str(r) + "%"
            res = _sqlite_like(str(l), pat)
            return res if not name.startswith("not_") else (not res)
        if name == "concat_op":
            if l is NULL or r is NULL:
                return NULL
            return str(l) + str(r)
        raise NotModelled("binary operator %s" % name)
    from sqlalchemy.sql import functions as F

    if isinstance(e, F.FunctionElement):
        args = [eval_expr(a, env) for a in e.clauses]
        if e.name.lower() == "instr" and len(args) == 2:
            if args[0] is NULL or args[1] is NULL:
                return NULL
            if any(is_sym(a) for a in args):
                raise NotModelled("instr on symbolic values")
            return str(args[0]).find(str(args[1])) + 1
        raise NotModelled("function %s" % e.name)
    raise NotModelled("expression %s" % type(e).__name__)


def _sqlite_like(value, pattern):
    """sqlite's LIKE: % any sequence, _ any character, ASCII case-insensitive"""
    import re

    rx = "".join(".*" if c == "%" else "." if c == "_" else re.escape(c) for c in pattern)
    return re.fullmatch(rx, value, flags=re.I | re.S) is not None


def _null_and(r):
    """NULL AND r is never TRUE (it is FALSE or NULL); rows are selected only on TRUE"""
    return False


def sql_selected(stmt, tables, root_table):
    """per root row id: term 'the statement returns this row' and the number of result rows (term)"""
    froms = stmt.get_final_froms()
    if len(froms) != 1:
        raise NotModelled("%d FROM elements (implicit cross join)" % len(froms))
    envs = eval_from(froms[0], tables)
    where = stmt.whereclause
    per_root: Dict[int, list] = {}
    for env in envs:
        root_rows = [row for sel, row in env.items() if _table_name(sel) == root_table]
        rid = root_rows[0]["database_id"]
        w = True if where is None else eval_expr(where, env)
        if w is NULL:
            w = False
        per_root.setdefault(rid, []).append(w)
    return per_root


# ---------------------------------------------------------------------------------------------
# query shapes
# ---------------------------------------------------------------------------------------------
def _v(vars_, name, cls, dom):
    if name not in vars_:
        vars_[name] = let(cls, dom, name=name)
    return vars_[name]


SHAPES = {}


def shape(name, expect="accept", need_leaf=False, need_parent=False, with_sub=False, root=M.Node, core=True, join_nodes=False):
    def deco(f):
        SHAPES[name] = dict(f=f, expect=expect, need_leaf=need_leaf, need_parent=need_parent, with_sub=with_sub, root=root, core=core, join_nodes=join_nodes)
        return f
    return deco


# each shape: f(n, m, k, db) -> (EQL condition, oracle(node_n, all_nodes) -> truth term of "n is selected")
@shape("n.tag > k0")
def _s1(n, m, k, db):
    return n.tag > k[0], lambda o, ns: o.tag > k[0]


@shape("n.tag == k0")
def _s2(n, m, k, db):
    return n.tag == k[0], lambda o, ns: EQ(o.tag, k[0])


@shape("n.tag != k0", core=False)
def _s2b(n, m, k, db):
    return n.tag != k[0], lambda o, ns: NOT(EQ(o.tag, k[0]))


@shape("in_(n.tag, [k0, k1])")
def _s3(n, m, k, db):
    return in_(n.tag, [k[0], k[1]]), lambda o, ns: OR(EQ(o.tag, k[0]), EQ(o.tag, k[1]))


@shape("or_(n.tag == k0, n.tag == k1) (same column and operator, different literals)")
def _s3b(n, m, k, db):
    return or_(n.tag == k[0], n.tag == k[1]), lambda o, ns: True


@shape("and_(n.tag >= k0, n.tag >= k1)", core=False)
def _s3c(n, m, k, db):
    return and_(n.tag >= k[0], n.tag >= k[1]), lambda o, ns: True


@shape("or_(n.parent.tag == k0, n.leaf.v == k0) (same literal, different paths)", need_parent=True, need_leaf=True, core=False)
def _s3d(n, m, k, db):
    return or_(n.parent.tag == k[0], n.leaf.v == k[0]), lambda o, ns: True


@shape("n.tag < 2.5 (a float literal against an integer column)")
def _s3e(n, m, k, db):
    return n.tag < 2.5, lambda o, ns: True


@shape("or_(n.tag == 2.5, n.tag >= -0.5)", core=False)
def _s3f(n, m, k, db):
    return or_(n.tag == 2.5, n.tag >= -0.5), lambda o, ns: True


@shape("n.leaf.v > k0", need_leaf=True)
def _s4(n, m, k, db):
    return n.leaf.v > k[0], lambda o, ns: o.leaf.v > k[0]


@shape("and_(n.tag > k0, n.leaf.v < k1)", need_leaf=True)
def _s5(n, m, k, db):
    return and_(n.tag > k[0], n.leaf.v < k[1]), lambda o, ns: AND(o.tag > k[0], o.leaf.v < k[1])


@shape("or_(n.leaf.v == k0, in_(n.tag, [k1, k2]))", need_leaf=True)
def _s6(n, m, k, db):
    return or_(n.leaf.v == k[0], in_(n.tag, [k[1], k[2]])), lambda o, ns: OR(EQ(o.leaf.v, k[0]), EQ(o.tag, k[1]), EQ(o.tag, k[2]))


@shape("n.leaf.v == n.tag (two attributes of one variable)", need_leaf=True)
def _s7(n, m, k, db):
    return n.leaf.v == n.tag, lambda o, ns: EQ(o.leaf.v, o.tag)


@shape("n.parent.tag == k0 (self reference)", need_parent=True)
def _s8(n, m, k, db):
    return n.parent.tag == k[0], lambda o, ns: EQ(o.parent.tag, k[0])


@shape("n.parent.leaf.v > k0 (two steps)", need_parent=True, need_leaf=True)
def _s9(n, m, k, db):
    return n.parent.leaf.v > k[0], lambda o, ns: o.parent.leaf.v > k[0]


@shape("and_(n.parent.tag > k0, n.leaf.v > k1)", need_parent=True, need_leaf=True, core=False)
def _s9b(n, m, k, db):
    return and_(n.parent.tag > k[0], n.leaf.v > k[1]), lambda o, ns: AND(o.parent.tag > k[0], o.leaf.v > k[1])


@shape("and_(n.tag == m.tag, m.leaf.v > k0) (two variables of one type)", expect="accept-or-reject", need_leaf=True)
def _s10(n, m, k, db):
    return and_(n.tag == m.tag, m.leaf.v > k[0]), lambda o, ns: OR([AND(EQ(o.tag, p.tag), p.leaf.v > k[0]) for p in ns])


@shape("n.tag < m.tag (two variables, scalar comparison)", expect="accept-or-reject")
def _s11(n, m, k, db):
    return n.tag < m.tag, lambda o, ns: OR([o.tag < p.tag for p in ns])


@shape("s.extra > k0 (subclass-typed variable)", with_sub=True, root=M.SubNode)
def _s12(n, m, k, db):
    return n.extra > k[0], lambda o, ns: o.extra > k[0]


@shape("and_(s.tag > k0, s.extra < k1) (inherited column)", with_sub=True, root=M.SubNode)
def _s13(n, m, k, db):
    return and_(n.tag > k[0], n.extra < k[1]), lambda o, ns: AND(o.tag > k[0], o.extra < k[1])


@shape("or_(and_(n.tag > k0, n.tag < k1), n.tag == k2)")
def _s14(n, m, k, db):
    return or_(and_(n.tag > k[0], n.tag < k[1]), n.tag == k[2]), lambda o, ns: OR(AND(o.tag > k[0], o.tag < k[1]), EQ(o.tag, k[2]))


@shape("n.leaf == m.leaf (relationship equality between two variables)", expect="accept-or-reject", need_leaf=True)
def _s15(n, m, k, db):
    return n.leaf == m.leaf, lambda o, ns: OR([o.leaf is p.leaf for p in ns])


@shape("contains(n.leaves, leaf0) (membership in a collection relationship)", expect="accept-or-reject")
def _s16(n, m, k, db):
    return contains(n.leaves, db.leaves[0]), lambda o, ns: any(x is db.leaves[0] for x in o.leaves)


@shape("and_(n.parent.leaf.v > k0, n.leaf.v < k1) (same relationship name reached over two paths)", need_parent=True, need_leaf=True)
def _s17(n, m, k, db):
    return and_(n.parent.leaf.v > k[0], n.leaf.v < k[1]), lambda o, ns: AND(o.parent.leaf.v > k[0], o.leaf.v < k[1])


@shape("contains('xBody1Test', r.text) (substring of a literal)", root=M.Rich)
def _s18(n, m, k, db):
    return contains("xBody1Test", n.text), lambda o, ns: o.text in "xBody1Test"


@shape("and_(contains(r.text, 'ody'), r.number > k0)", root=M.Rich)
def _s19(n, m, k, db):
    return and_(contains(n.text, "ody"), n.number > k[0]), lambda o, ns: AND("ody" in o.text, o.number > k[0])


# shapes the translator cannot express: it has to say so
@shape("r.owner == m.parent (relationship equality join between variables of two types)", root=M.Rich, need_parent=True, join_nodes=True)
def _s20(n, m, k, db):
    return n.owner == m.parent, lambda o, ns: True


@shape("and_(r.owner == m.parent, m.tag > k0) (join and a condition on the joined variable)", root=M.Rich, need_parent=True, join_nodes=True)
def _s21(n, m, k, db):
    return and_(n.owner == m.parent, m.tag > k[0]), lambda o, ns: True


RATIOS = [2.0, 2.5, 0.5, 4.0]


@shape("in_(r.ratio, [1, 2, 3]) (consecutive integer literals, a float column)", root=M.Rich)
def _s22(n, m, k, db):
    for i, r in enumerate(db.riches):
        r.ratio = RATIOS[db.ctx.choice("ratio%d" % i, len(RATIOS))]
        r.text = "x"
    return in_(n.ratio, [1, 2, 3]), lambda o, ns: True


@shape("r.opt != k0 (a nullable column: None != k is true in memory)", root=M.Rich)
def _s23(n, m, k, db):
    for i, r in enumerate(db.riches):
        r.opt = db.ctx.fresh_int("opt%d" % i) if db.ctx.flag("has_opt%d" % i) else None
        r.text = "x"
    return n.opt != k[0], lambda o, ns: True


@shape("r.opt == k0 (a nullable column)", root=M.Rich, core=False)
def _s24(n, m, k, db):
    for i, r in enumerate(db.riches):
        r.opt = db.ctx.fresh_int("opt%d" % i) if db.ctx.flag("has_opt%d" % i) else None
        r.text = "x"
    return n.opt == k[0], lambda o, ns: True


@shape("not_(n.tag > k0)", expect="reject")
def _r1(n, m, k, db):
    return not_(n.tag > k[0]), None


@shape("exists(m, n.tag == m.tag)", expect="reject")
def _r2(n, m, k, db):
    return exists(m, n.tag == m.tag), None


@shape("for_all(m, n.tag <= m.tag)", expect="reject")
def _r3(n, m, k, db):
    return for_all(m, n.tag <= m.tag), None


@shape("HasType(n, SubNode)", expect="reject", with_sub=True)
def _r4(n, m, k, db):
    return HasType(n, M.SubNode), None


@shape("n.leaves[0].v > k0 (indexing)", expect="reject")
def _r5(n, m, k, db):
    return n.leaves[0].v > k[0], None


def harness(name, R, quant):
    sp = SHAPES[name]

    def h(ctx):
        from sqlalchemy.orm import Session

        from krrood.ormatic.eql_interface import eql_to_sql, EQLTranslationError

        dao = ormgen.harness_dao()
        db = DB(ctx, R, sp["need_leaf"], sp["need_parent"], sp["with_sub"], rich_only=sp["root"] is M.Rich and not sp["join_nodes"], lean=sp["join_nodes"])
        k = [ctx.fresh_int("k%d" % i) for i in range(3)]
        if sp["root"] is M.Rich:
            db.add_riches(ctx, R, with_owner=sp["join_nodes"])
            roots = db.riches
        else:
            roots = [o for o in db.nodes if isinstance(o, sp["root"])]
        all_roots = db.riches if sp["root"] is M.Rich else db.nodes
        n = let(sp["root"], roots, name="n")
        m = let(M.Node, db.nodes, name="m")
        cond, oracle = sp["f"](n, m, k, db)
        q = (an if quant == "an" else the)(entity(n, cond))
        v = {}
        engine = _engine(dao)
        with Session(engine) as session:
            try:
                tr = eql_to_sql(q, session)
                rejected = None
            except EQLTranslationError as e:
                tr, rejected = None, type(e).__name__
            except Exception as e:
                ctx.observe("translator raised %s: %s" % (type(e).__name__, str(e)[:100]))
                v["unsupported-queries-are-rejected-with-EQLTranslationError"] = False
                return v
            ctx.observe(name, rejected)
            if sp["expect"] == "reject":
                ctx.note("nonempty", 1)
                v["unsupported-queries-are-rejected-with-EQLTranslationError"] = rejected is not None
                return v
            if rejected is not None:
                ctx.note("nonempty", 1)
                v["supported-query-is-translated"] = sp["expect"] == "accept-or-reject"
                return v
            # ---- an accepted query is a statement a database can run: every bound parameter is a database value ----
            try:
                params = list(tr.sql_query.compile().params.values())
            except Exception as e:
                params = ["<statement does not compile: %s>" % type(e).__name__, object()]
            flat = [x for p_ in params for x in (p_ if isinstance(p_, (list, tuple, set, frozenset)) else [p_])]
            bad = [x for x in flat if not (is_sym(x) or x is None or isinstance(x, (int, float, str, bytes, bool)) or type(x).__module__ in ("datetime", "decimal", "uuid") or hasattr(x, "value") and type(x).__mro__[-2].__name__ == "Enum")]
            if bad:
                ctx.observe("statement binds %s" % ", ".join(sorted(type(x).__name__ for x in bad))[:120])
                v["unsupported-queries-are-rejected-with-EQLTranslationError"] = False
                return v
            # ---- in memory: the real engine on the same data ----
            mem, mem_exc = [], None
            try:
                r = q.evaluate()
                mem = [index_of(all_roots, r)] if quant == "the" else [index_of(all_roots, o) for o in r]
            except NoSolutionFound:
                mem_exc = "none"
            except MultipleSolutionFound:
                mem_exc = "multiple"
            ctx.note("nonempty", bool(mem))
            # ---- SQL: semantics of the translated statement over the rows of the same data ----
            try:
                per_root = sql_selected(tr.sql_query, db.tables(), dao_table(sp["root"]))
            except NotModelled as e:
                if not ctx.symbolic:
                    per_root = None
                else:
                    ctx.observe("statement outside the modelled SQL subset: %s" % e)
                    v["statement-within-the-modelled-subset"] = False
                    return v
            if not ctx.symbolic:
                # native run: execute the statement in real sqlite on the persisted objects
                real = _execute_really(dao, db, tr, quant)
                if per_root is not None:
                    model_ids = sorted(rid for rid, ws in per_root.items() if any(ws))
                    v["sql-semantics-model-agrees-with-sqlite"] = (real[0] is None and isinstance(real[1], str)) or sorted(set(real[0])) == model_ids
                sql_ids, sql_exc = real
                ctx.observe(mem, mem_exc)
                ctx.detail(dict(sqlite_ids=sql_ids, sqlite_exception=sql_exc))
                if quant == "the":
                    v["the-fails-in-both-worlds-alike"] = (mem_exc is None) == (sql_exc is None)
                    v["evaluate()-fails-when-the-engine-fails"] = v["the-fails-in-both-worlds-alike"]
                    if mem_exc is None and sql_exc is None:
                        v["same-entities"] = sorted(set(sql_ids)) == sorted(i + 1 for i in mem)
                        v["evaluate()-returns-the-engine's-entities"] = v["same-entities"]
                else:
                    v["same-entities"] = sorted(set(sql_ids)) == sorted(set(i + 1 for i in mem))
                    v["evaluate()-returns-the-engine's-entities"] = v["same-entities"]
                return v
            ctx.observe(mem, mem_exc)
            # ---- the translator's own evaluate() (real code) over the modelled rows ----
            from sqlalchemy.exc import MultipleResultsFound, NoResultFound

            tr.session = FakeSession(db.tables(), dao_table(sp["root"]))
            ev_ids, ev_exc = None, None
            try:
                res = tr.evaluate()
                ev_ids = [res.database_id] if quant == "the" else [r.database_id for r in res]
            except NoResultFound:
                ev_exc = "none"
            except MultipleResultsFound:
                ev_exc = "multiple"
            except NotModelled as e:
                ctx.observe("evaluate() outside the modelled result API: %s" % e)
                v["statement-within-the-modelled-subset"] = False
                return v
            if quant == "the":
                v["evaluate()-fails-when-the-engine-fails"] = (mem_exc is None) == (ev_exc is None)
                if mem_exc is None and ev_exc is None:
                    v["evaluate()-returns-the-engine's-entities"] = ev_ids == [i + 1 for i in mem]
            else:
                v["evaluate()-returns-the-engine's-entities"] = sorted(set(ev_ids)) == sorted(set(i + 1 for i in mem))
            terms = []
            nid = {i: i + 1 for i in range(len(all_roots))}
            sel = {i: (OR(per_root.get(nid[i], [])) if per_root.get(nid[i]) else False) for i in range(len(all_roots))}
            if quant == "an":
                v["same-entities"] = AND([IFF(sel[i], i in mem) for i in range(len(all_roots))])
            else:
                nrows = SUM([B2I(w) for ws in per_root.values() for w in ws]) if per_root else 0
                if mem_exc is None:
                    v["the-fails-in-both-worlds-alike"] = EQ(nrows, 1)
                    v["same-entities"] = IMPLIES(EQ(nrows, 1), sel[mem[0]] if mem and mem[0] >= 0 else False)
                else:
                    v["the-fails-in-both-worlds-alike"] = NOT(EQ(nrows, 1))
            return v

    return h


class FakeRow:
    """stands for the one DAO instance of a row (the identity map of a session hands out one object per row)"""

    def __init__(self, database_id):
        self.database_id = database_id


class FakeScalarResult:
    """the part of sqlalchemy's ScalarResult that a translator may use, over the rows the modelled statement returns"""

    def __init__(self, rows):
        self.rows = list(rows)

    def unique(self):
        out = []
        for r in self.rows:
            if not any(r is x for x in out):
                out.append(r)
        return FakeScalarResult(out)

    def all(self):
        return list(self.rows)

    fetchall = all

    def __iter__(self):
        return iter(list(self.rows))

    def first(self):
        return self.rows[0] if self.rows else None

    def one(self):
        from sqlalchemy.exc import MultipleResultsFound, NoResultFound

        if not self.rows:
            raise NoResultFound("No row was found when one was required")
        if len(self.rows) > 1:
            raise MultipleResultsFound("Multiple rows were found when exactly one was required")
        return self.rows[0]

    def one_or_none(self):
        from sqlalchemy.exc import MultipleResultsFound

        if len(self.rows) > 1:
            raise MultipleResultsFound("Multiple rows were found when one or none was required")
        return self.rows[0] if self.rows else None

    def __getattr__(self, name):
        raise NotModelled("ScalarResult.%s" % name)


class FakeSession:
    """session stub for the symbolic run: scalars(statement) answers with the rows of the modelled SQL semantics; whether a
    row is part of the result is decided per path (the truth of its WHERE clause is a symbolic boolean that is branched on)"""

    def __init__(self, tables, root_table):
        self.tables, self.root_table = tables, root_table

    def scalars(self, stmt):
        per_root = sql_selected(stmt, self.tables, self.root_table)
        rows = []
        for rid in sorted(per_root):
            row = FakeRow(rid)
            for w in per_root[rid]:
                if w is True or (w is not False and bool(w)):
                    rows.append(row)
        return FakeScalarResult(rows)

    def __getattr__(self, name):
        raise NotModelled("Session.%s" % name)


def dao_table(cls):
    return cls.__name__ + "DAO"


_ENGINE = {}


def _engine(dao):
    import os

    from sqlalchemy.pool import StaticPool

    from krrood.ormatic.utils import create_engine

    if _ENGINE.get("pid") != os.getpid():
        e = create_engine("sqlite://", poolclass=StaticPool, connect_args={"check_same_thread": False})
        dao.Base.metadata.create_all(e)
        _ENGINE.update(pid=os.getpid(), engine=e)
    return _ENGINE["engine"]


def _execute_really(dao, db, tr, quant):
    """persist the objects with to_dao into sqlite and run the translated statement there; returns (ids, exception name)"""
    from sqlalchemy.exc import MultipleResultsFound, NoResultFound
    from sqlalchemy.orm import Session

    from krrood.ormatic.dao import to_dao, ToDAOState

    engine = _engine(dao)
    with engine.begin() as c:
        for t in reversed(dao.Base.metadata.sorted_tables):
            c.execute(t.delete())
    st = ToDAOState()
    with Session(engine) as s:
        roots = db.riches if db.riches else db.nodes
        daos = [to_dao(o, st) for o in db.leaves] + [to_dao(o, st) for o in db.nodes] + [to_dao(o, st) for o in db.riches]
        s.add_all(daos)
        s.commit()
        root_daos = [st.get_existing(o) for o in roots]
        ident = {d.database_id: i + 1 for i, d in enumerate(root_daos)}
    with Session(engine) as s2:
        tr.session = s2
        try:
            res = tr.evaluate()
        except NoResultFound:
            return None, "none"
        except MultipleResultsFound:
            return None, "multiple"
        rows = [res] if quant == "the" else list(res)
        return [ident.get(r.database_id, -1) for r in rows], None


def cases(tier, seed):
    ormgen.harness_dao()
    R = 2  # (3 rows per table: no case finished within 573 s, nor the tier within 30 min under per-case budgets of 3000 s - measured; the thorough tier adds the remaining shapes instead)
    cs = []
    for name, sp in SHAPES.items():
        if tier == "quick" and not sp["core"]:
            continue
        for quant in ("an", "the"):
            if sp["expect"] == "reject" and quant == "the":
                continue
            nm = "%s(entity(n, %s))" % (quant, name)
            cs.append(Case(nm + "|R<=%d" % R, harness(name, R, quant), key=nm, reset=eql_reset, validate=2, timeout=600 if tier == "quick" else 3000,
                           max_paths=100000 if tier == "quick" else 2000000, meta=dict(R=R, native_has_extra_obligations=True)))
    return cs


def describe(tier):
    R = 2
    return dict(
        rule="one program = one EQL query shape over the harness model (comparisons of attribute chains with symbolic literals, in_, and_/or_ nesting, paths across "
        "relationships incl. the self reference and two-step paths, two variables of one type, subclass-typed variables, relationship equality, collection membership; "
        "and shapes the translator must reject: not_, exists, for_all, HasType, indexing) under an(...) and the(...); tables of <= %d rows each, FK structure and "
        "subclass choice = bounded symbolic choices, scalar columns and literals = unbounded integers; disagreements are replayed in real sqlite" % R,
        bounds=dict(rows_per_table="<= %d" % R, scalar_columns_and_literals="unbounded integers", sql_subset="inner joins, =,<>,<,<=,>,>=, IN, AND/OR/NOT, IS NULL; three-valued logic"),
        outside=["tables of 3 or more rows (tried for the thorough tier: the exploration does not finish within its budget)", "string operations (LIKE / instr)", "outer joins", "statements with implicit cross joins are reported as outside the modelled subset (a violation of the check, not silently skipped)",
                 "rows on which a dereferenced relationship is NULL (in memory that is an AttributeError, not an answer)"],
        assumptions=["SQL semantics of the emitted subset as implemented in this file; validated against real sqlite on seeded concrete databases on every run (sql-semantics-model-agrees-with-sqlite)",
                     "to_dao + flush store one row per object with the foreign keys of the object graph (validated the same way)"],
    )
