"""Harness world for the symbol-graph properties (C13, C14, C15, C16, C20): Symbol classes, an ontology with property
descriptors, a virtual id() allocator, and helpers to run bounded symbolic histories on the REAL SymbolGraph / weakref / gc."""
from __future__ import annotations

import gc
import weakref
from dataclasses import dataclass, field
from typing import Any, Dict, List, Optional

from typing_extensions import Set, Type

import rustworkx as rx

from krrood.class_diagrams.utils import Role
from krrood.entity_query_language import symbol_graph as SG
from krrood.entity_query_language import symbolic as S
from krrood.entity_query_language.predicate import Symbol, update_cache
from krrood.entity_query_language.symbol_graph import SymbolGraph
from krrood.ontomatic.property_descriptor.mixins import HasInverseProperty, TransitiveProperty
from krrood.ontomatic.property_descriptor.property_descriptor import PropertyDescriptor

from .eqlworld import eql_reset


# ---- plain hierarchy --------------------------------------------------------------------------
@dataclass(eq=False)
class T(Symbol):
    tag: int = 0


@dataclass(eq=False)
class Sub(T):
    pass


@dataclass(eq=False)
class Sub2(T):
    pass


@dataclass(eq=False)
class Diamond(Sub, Sub2):
    """reachable from T over two inheritance paths"""


@dataclass(eq=False)
class Falsy(T):
    """a live instance whose truth value is False (a container-like symbol that is empty)"""

    def __len__(self):
        return 0


@dataclass(eq=False)
class SubSub(Sub):
    pass


@dataclass(eq=False)
class Other(Symbol):
    tag: int = 0


# ---- ontology -----------------------------------------------------------------------------------
@dataclass(eq=False)
class Org(Symbol):
    name: int = 0
    members: Set[Human] = field(default_factory=set)
    sub_org_of: List[Org] = field(default_factory=list)
    related_to: List[Org] = field(default_factory=list)  # super-property of the transitive sub_org_of
    partner_of: List[Org] = field(default_factory=list)  # a second property between the same kinds of instances


@dataclass(eq=False)
class TwinOrg(Org):
    """value-equal: two distinct instances with the same name compare equal and hash alike"""

    def __eq__(self, o):
        return isinstance(o, TwinOrg) and o.name == self.name

    def __hash__(self):
        return hash(("TwinOrg", self.name))


@dataclass(eq=False)
class Human(Symbol):
    name: int = 0
    works_for: Org = None
    member_of: List[Org] = field(default_factory=list)


@dataclass(eq=False)
class Boss(Role[Human], Symbol):
    person: Human
    head_of: Org = None

    # Role is a dataclass with eq=True, which sets __hash__ to None for its subclasses: restore identity semantics
    __hash__ = object.__hash__
    __eq__ = object.__eq__


@dataclass
class Member(PropertyDescriptor, HasInverseProperty):
    @classmethod
    def get_inverse(cls) -> Type[MemberOf]:
        return MemberOf


@dataclass
class MemberOf(PropertyDescriptor, HasInverseProperty):
    @classmethod
    def get_inverse(cls) -> Type[Member]:
        return Member


@dataclass
class WorksFor(MemberOf):
    pass


@dataclass
class HeadOf(WorksFor):
    pass


@dataclass
class RelatedTo(PropertyDescriptor): ...


@dataclass
class SubOrgOf(RelatedTo, TransitiveProperty): ...


@dataclass
class PartnerOf(PropertyDescriptor): ...


# a property hierarchy of depth 3 without inverses, and a class that has the sub-property and the grand-parent but not the middle one
@dataclass
class Near(PropertyDescriptor): ...


@dataclass
class Touches(Near):
    pass


@dataclass
class Holds(Touches):
    pass


@dataclass(eq=False)
class Hand(Symbol):
    name: int = 0
    holds: Org = None
    near: List[Org] = field(default_factory=list)


@dataclass(eq=False)
class Arm(Symbol):
    name: int = 0
    holds: Org = None
    touches: Org = None
    near: List[Org] = field(default_factory=list)


Hand.holds = Holds(Hand, "holds")
Hand.near = Near(Hand, "near")
Arm.holds = Holds(Arm, "holds")
Arm.touches = Touches(Arm, "touches")
Arm.near = Near(Arm, "near")
Human.works_for = WorksFor(Human, "works_for")
Human.member_of = MemberOf(Human, "member_of")
Boss.head_of = HeadOf(Boss, "head_of")
Org.members = Member(Org, "members")
Org.sub_org_of = SubOrgOf(Org, "sub_org_of")
Org.related_to = RelatedTo(Org, "related_to")
Org.partner_of = PartnerOf(Org, "partner_of")

CLASSES = {"T": T, "Sub": Sub, "Falsy": Falsy, "Diamond": Diamond, "SubSub": SubSub, "Other": Other, "Org": Org, "Human": Human}

_CD = [None]


def fresh_graph():
    """a new SymbolGraph (what SymbolGraph().clear(); SymbolGraph() gives), re-using one class diagram per process because
    building it costs 40 ms"""
    SymbolGraph().clear()
    if _CD[0] is None:
        g = SymbolGraph()
        _CD[0] = g._class_diagram
        return g
    return SymbolGraph(_class_diagram=_CD[0])


class VirtualIds:
    """id() as a nondeterministic environment function: the id of an object is an arbitrary value that differs from the ids
    of all objects alive at the same time (its contract); in particular the id of a dead object may be handed out again.
    Installed as the module global `id` of krrood.entity_query_language.symbol_graph (no source change)."""

    NONE_ID = -1

    def __init__(self, ctx, enabled=True):
        self.ctx = ctx
        self.enabled = enabled
        self.records = []  # (weakref, virtual id) in allocation order
        self.next_fresh = 100
        self.n = 0
        self.reused = 0
        self.unrealised = 0
        self.native = []  # native runs: (weakref, virtual id, real id)
        self.graveyard = {}  # native runs: real id of a dead instance -> raw placeholder occupying its address

    def install(self):
        if self.enabled and self.ctx.symbolic:
            SG.id = self
        else:
            SG.__dict__.pop("id", None)

    def uninstall(self):
        SG.__dict__.pop("id", None)

    def __call__(self, obj):
        if obj is None:
            return self.NONE_ID
        for w, v in self.records:  # records are kept in allocation order (never keyed by the real address, which is reused)
            if w() is obj:
                return v
        live = {v for (w, v) in self.records if w() is not None}
        dead = sorted({v for (w, v) in self.records if w() is None} - live)
        self.n += 1
        k = self.ctx.choice("id%d" % self.n, len(dead) + 1)
        if k < len(dead):
            vid = dead[k]
            self.reused += 1
        else:
            vid = self.next_fresh
            self.next_fresh += 1
        try:
            self.records.append((weakref.ref(obj), vid))
        except TypeError:
            pass
        return vid


def create(ids: "VirtualIds", cls, *args, **kwargs):
    """cls(*args, **kwargs).  Under symbolic execution the virtual allocator (installed as symbol_graph.id) decides the new
    object's id.  In a native run the REAL id() is in force; if the replayed model says that the new object takes the id of
    a dead one, raw instances are allocated until CPython really hands out that address again (bounded tries), then the
    instance is registered and initialised exactly as Symbol.__new__ / __init__ would do."""
    if ids.ctx.symbolic and ids.enabled:
        return cls(*args, **kwargs)
    # native: replicate the allocator's bookkeeping to know which dead object (if any) is to be 'reincarnated'
    dead = sorted({v for (w, v, _) in ids.native if w() is None} - {v for (w, v, _) in ids.native if w() is not None})
    ids.n += 1
    k = ids.ctx.choice("id%d" % ids.n, len(dead) + 1)
    target_real = None
    if k < len(dead):
        vid = dead[k]
        target_real = next(r for (w, v, r) in ids.native if v == vid and w() is None)
        ids.reused += 1
    else:
        vid = ids.next_fresh
        ids.next_fresh += 1
    obj = None
    if target_real is not None:
        rejects = []
        ids.graveyard.pop(target_real, None)  # release the placeholder that kept the dead object's address free
        for _ in range(2000):
            cand = object.__new__(cls)
            if id(cand) == target_real:
                obj = cand
                break
            rejects.append(cand)
        del rejects
        if obj is not None:
            update_cache(obj)  # what Symbol.__new__ does
            obj.__init__(*args, **kwargs)
        else:
            ids.unrealised += 1
    if obj is None:
        obj = cls(*args, **kwargs)
    ids.native.append((weakref.ref(obj), vid, id(obj)))
    return obj


def drop(ids: "VirtualIds", objs, i):
    """the program drops its reference to objs[i].  In a native run the freed address is immediately occupied by a raw,
    unregistered placeholder (invisible to krrood) so that a later creation can be given exactly that address when the
    replayed model asks for the id of this dead object."""
    o = objs[i]
    if o is None:
        return
    real, cls = id(o), type(o)
    w = weakref.ref(o)
    objs[i] = None
    del o
    if not (ids.ctx.symbolic and ids.enabled) and w() is None:
        ph = object.__new__(cls)
        if id(ph) == real:
            ids.graveyard[real] = ph


def world_reset():
    eql_reset()
    SG.__dict__.pop("id", None)
    # the automatic collector runs at allocation-count thresholds, i.e. at different points in a replayed path than in the
    # first run; cyclic garbage is therefore only collected by the explicit collect operations of a history (and here)
    gc.disable()
    gc.collect()


def graph_state(g: SymbolGraph):
    """a plain-data snapshot of the registry"""
    nodes = g._instance_graph.nodes()
    return dict(
        nodes=len(nodes),
        live_nodes=sum(1 for n in nodes if n.instance is not None),
        instance_index=len(g._instance_index),
        per_class=sum(len(v) for v in g._class_to_wrapped_instances.values()),
        relation_index=sum(len(v) for v in g._relation_index.values()),
        edges=len(g._instance_graph.edges()),
    )


def relations_of(g: SymbolGraph, objs: List[Any]):
    """set of (source index, field name, target index) over the given live objects (others are reported with index -1)"""
    from .eqlworld import index_of

    out = set()
    for e in g._instance_graph.edges():
        out.add((index_of(objs, e.source.instance), e.wrapped_field.public_name if hasattr(e.wrapped_field, "public_name") else e.wrapped_field.name, index_of(objs, e.target.instance)))
    return out
