"""C19 -- unresolvable JSON type tags fail with the documented serialisation errors only.

Three parts (all regenerated from /repo's current source on every run):
 1. symx + symbolic strings: the real ``SubclassJSONSerializer.from_json`` runs on a symbolic ASCII tag; the import system
    is a nondeterministic stub constrained by importlib's contract (environment = arbitrary outcome). Exhaustive within
    the length bound; every counterexample is replayed natively against the real import system, with the environment
    outcome realised through real entries in ``sys.modules``.
 2. a finite pool of categorical tags (every JSON type, modules x names) run natively with the real import system.
 3. CrossHair (symbolic execution with z3 of the same function on ``str``/``int``/``float``/``list``/``dict`` tags over
    all of Unicode): bug hunting only -- "Not confirmed" is recorded as inconclusive, never as success.
"""
from __future__ import annotations

import importlib
import itertools
import os
import re
import subprocess
import sys
import time
import types
import typing
import uuid

from vlib import core, symx
from vlib.core import Case
from vlib.symstr import SymStr, fresh_str, model_string
from vlib.symx import AND, OR, NOT, IMPLIES, IFF, EQ

import krrood.adapters.json_serializer as JS
from krrood.adapters.json_serializer import (
    JSON_TYPE_NAME,
    JSONSerializationError,
    SubclassJSONSerializer,
    JSONSerializableTypeRegistry,
    MissingTypeError,
    InvalidTypeFormatError,
    UnknownModuleError,
    ClassNotFoundError,
    ClassNotDeserializableError,
    from_json,
)

PROPERTY = "C19"
LEVEL = "model_checking"


# ---- objects an attribute lookup may produce -------------------------------------------------
class GoodLeaf(SubclassJSONSerializer):
    @classmethod
    def _from_json(cls, data, **kwargs):
        return cls()


class NoFromJson(SubclassJSONSerializer):
    pass


class Z(SubclassJSONSerializer):
    """a loaded, deserialisable class with a short name: a tag that names it in ANOTHER module must not find it"""

    @classmethod
    def _from_json(cls, data, **kwargs):
        return cls()


class Plain:
    pass


class Registered:
    pass


NamesakeOfRegistered = type("Registered", (), {"__module__": Registered.__module__, "__doc__": "another class with the module and name of a registered one; not registered itself"})


class SubRegistered(Registered):
    """a subclass of a registered type that is not registered itself: not deserialisable"""


def _a_function():
    pass


_T = typing.TypeVar("_T")

ATTR_KINDS = ["missing", "function", "module", "typevar", "int", "plain-class", "registered-class", "serializer", "serializer-without-from_json", "generic-alias", "subclass-of-registered-class", "unhashable-object", "namesake-of-registered-class"]
ATTR_OBJECTS = {
    "namesake-of-registered-class": NamesakeOfRegistered,
    "subclass-of-registered-class": SubRegistered,
    "unhashable-object": ["not", "a", "class"],
    "function": _a_function,
    "module": os,
    "typevar": _T,
    "int": 5,
    "plain-class": Plain,
    "registered-class": Registered,
    "serializer": GoodLeaf,
    "serializer-without-from_json": NoFromJson,
    "generic-alias": typing.List[int],
}
IMPORT_KINDS = ["module-not-found", "import-error", "module"]


def _register():
    JSONSerializableTypeRegistry().register(Registered, lambda o: {JSON_TYPE_NAME: "x.Registered"}, lambda d, **k: Registered())


class _StubModule:
    def __init__(self, attr_kind):
        object.__setattr__(self, "_kind", attr_kind)

    def __getattr__(self, name):
        k = object.__getattribute__(self, "_kind")
        if k == "missing":
            raise AttributeError(name)
        return ATTR_OBJECTS[k]


class _StubImportlib:
    """importlib.import_module per its contract: ValueError for an empty name, TypeError for a relative name without
    package, otherwise an arbitrary outcome among ModuleNotFoundError / ImportError / a module."""

    def __init__(self, import_kind, attr_kind, missing_at=0):
        self.import_kind, self.attr_kind, self.missing_at = import_kind, attr_kind, missing_at
        self.calls = 0

    def import_module(self, name, package=None):
        self.calls += 1
        if not isinstance(name, str):
            raise TypeError("module name must be str")
        if len(name) == 0:
            raise ValueError("Empty module name")
        if name.startswith("."):
            raise TypeError("the 'package' argument is required to perform a relative import")
        if self.import_kind == "module-not-found":
            # the import system reports the first dotted prefix it could not find
            parts = name.split(".")
            k = min(self.missing_at, len(parts) - 1)
            missing = parts[0]
            for p in parts[1 : k + 1]:
                missing = missing + "." + p
            raise ModuleNotFoundError("No module named <symstr>", name=missing)
        if self.import_kind == "import-error":
            raise ImportError("cannot import <symstr>", name=name)
        return _StubModule(self.attr_kind)


class _RaisingFinder:
    def __init__(self, top):
        self.top = top

    def find_spec(self, name, path=None, target=None):
        if name == self.top:
            raise ImportError("import of %r fails" % name)
        return None


def _install_real_env(tag, import_kind, attr_kind, missing_at=0):
    """realise the environment outcome with the real import system; returns an undo function or None if the tag's
    module name collides with something real (then the run is skipped)"""
    if not isinstance(tag, str) or "." not in tag:
        return lambda: None
    mod, cls = tag.rsplit(".", 1)
    if mod == "" or mod.startswith("."):
        return lambda: None
    top = mod.split(".")[0]
    if top in sys.modules or top in sys.stdlib_module_names:
        return None
    try:
        if importlib.util.find_spec(top) is not None:
            return None
    except Exception:
        pass
    added, finder = [], None
    if import_kind == "module":
        parts = mod.split(".")
        for i in range(1, len(parts) + 1):
            n = ".".join(parts[:i])
            m = types.ModuleType(n)
            m.__path__ = []
            sys.modules[n] = m
            added.append(n)
        if attr_kind != "missing":
            setattr(sys.modules[mod], cls, ATTR_OBJECTS[attr_kind])
    elif import_kind == "import-error":
        finder = _RaisingFinder(top)
        sys.meta_path.insert(0, finder)
    elif import_kind == "module-not-found":
        # the first missing_at dotted prefixes exist as (empty) packages, the next one is missing
        parts = mod.split(".")
        for i in range(1, min(missing_at, len(parts) - 1) + 1):
            n = ".".join(parts[:i])
            m = types.ModuleType(n)
            m.__path__ = []
            sys.modules[n] = m
            added.append(n)

    def undo():
        for n in added:
            sys.modules.pop(n, None)
        if finder is not None:
            sys.meta_path.remove(finder)
        importlib.invalidate_caches()

    return undo


def _expected_errors(tag_malformed, import_kind, attr_kind):
    """coarse map: which documented errors identify the problem"""
    if tag_malformed:
        return (MissingTypeError, InvalidTypeFormatError, UnknownModuleError)
    if import_kind != "module":
        return (UnknownModuleError,)
    if attr_kind == "missing":
        return (ClassNotFoundError,)
    return (ClassNotFoundError, ClassNotDeserializableError)


def _verdict(ctx, tag, doc, pick, import_kind, attr_kind, malformed, missing_at=0):
    """run from_json(doc) under the (stubbed or real) environment and judge the outcome"""
    _register()
    v = {}
    stub = None
    undo = None
    if ctx.symbolic:
        stub = _StubImportlib(import_kind, attr_kind, missing_at)
        saved = JS.importlib
        JS.importlib = stub
    else:
        undo = _install_real_env(tag, import_kind, attr_kind, missing_at)
        if undo is None:
            ctx.assume(False)
    try:
        try:
            r = from_json(doc)
            exc = None
        except JSONSerializationError as e:
            r, exc = None, e
        # the same document again: nothing about the first attempt may change the outcome
        try:
            r2 = from_json(doc)
            exc2 = None
        except JSONSerializationError as e:
            r2, exc2 = None, e
        v["same-outcome-when-repeated"] = (type(exc) is type(exc2)) and (exc is not None or type(pick(r)) is type(pick(r2)))
    finally:
        if stub is not None:
            JS.importlib = saved
        elif undo:
            undo()
    if exc is not None:
        ctx.observe("error", type(exc).__name__)
        ctx.note("nonempty", 1)
        v["error-identifies-problem"] = isinstance(exc, _expected_errors(malformed, import_kind, attr_kind))
        # a tag that resolves to a deserialisable class must not be refused
        resolvable = (not malformed) and import_kind == "module" and attr_kind in ("registered-class", "serializer")
        if ctx.symbolic and resolvable and stub.calls > 0 and isinstance(exc, (ClassNotFoundError, ClassNotDeserializableError, UnknownModuleError)):
            v["resolvable-not-refused"] = False
        return v
    r = pick(r)
    ctx.observe("returned", type(r).__name__)
    ctx.note("nonempty", 1)
    want = ATTR_OBJECTS.get(attr_kind)
    v["returns-exactly-the-named-class"] = (
        import_kind == "module" and attr_kind in ("registered-class", "serializer") and isinstance(want, type) and type(r) is want
    )
    return v


def str_tag_case(length, ik, ak, nested=False):
    def h(ctx):
        tag = fresh_str(ctx, "tag", length, min_len=length)
        if nested == "twice":
            # the same tag in two elements of one list document (and once more in a nested list)
            doc = [{JSON_TYPE_NAME: tag}, 1, {JSON_TYPE_NAME: tag}, [{JSON_TYPE_NAME: tag}]]
            pick = lambda r: r[0]
        elif nested:
            doc = [1, {JSON_TYPE_NAME: tag}, [None, "s"]]
            pick = lambda r: r[1]
        else:
            doc = {JSON_TYPE_NAME: tag}
            pick = lambda r: r
        # harness-side notion of "well formed": at least two dot-separated ASCII identifiers.  Deciding it here forks
        # the path on the positions of the dots and on identifier-ness of the parts before the code under test runs.
        parts = tag.split(".")
        malformed = not (len(parts) >= 2 and all(bool(p.isidentifier()) and p.isascii() for p in parts))
        missing_at = ctx.choice("missing_at", max(1, len(parts) - 1)) if ik == "module-not-found" else 0
        ctx.observe(len(parts), malformed)
        return _verdict(ctx, tag, doc, pick, ik, ak, malformed, missing_at)

    return h


def int_tag_case():
    def h(ctx):
        tag = ctx.fresh_int("tag")
        return _verdict(ctx, tag, {JSON_TYPE_NAME: tag}, lambda r: r, "module-not-found", "missing", True)

    return h


OTHER_TAGS = [None, True, False, 0, 1, -1, 1.5, 0.0, float("inf"), [], ["a.b"], [1], {}, {"a": 1}, {JSON_TYPE_NAME: "uuid.UUID"}]


def other_json_types_case():
    def h(ctx):
        i = ctx.choice("which", len(OTHER_TAGS))
        tag = OTHER_TAGS[i]
        ctx.observe(repr(tag))
        return _verdict(ctx, tag, {JSON_TYPE_NAME: tag}, lambda r: r, "module-not-found", "missing", True)

    return h


def missing_key_case():
    def h(ctx):
        return _verdict(ctx, None, {"value": 1}, lambda r: r, "module-not-found", "missing", True)

    return h


# ---- part 2: categorical pool with the real import system -----------------------------------
POOL_MODULES = ["json", "uuid", "os.path", "os", "typing", "sys", "krrood.adapters.json_serializer", "harness.c19_tags", "builtins", "krrood", "krrood.nonexistent", "krrood.nonexistent.sub", "uuid.UUID", "no_such_module_xyz", "", ".", "..", "json.", ".json", " json", "json ", "a b"]
POOL_NAMES = ["dumps", "UUID", "path", "T", "Any", "List", "maxsize", "SubclassJSONSerializer", "JSONSerializableTypeRegistry", "GoodLeaf", "NoFromJson", "Plain", "ATTR_KINDS", "int", "nope", "", "a.b", "__name__", "__doc__", "hex.real", " ", "UUID "]


def pool_findings():
    findings, n, nontriv, samples = [], 0, 0, []
    for m, c in itertools.product(POOL_MODULES, POOL_NAMES):
        tag = m + "." + c
        n += 1
        outs = []
        ok = True
        for attempt in range(2):  # twice: a second presentation of the same tag must behave like the first
            try:
                r = from_json({JSON_TYPE_NAME: tag, "value": "12345678123456781234567812345678"})
                ok = ok and (type(r).__module__ + "." + type(r).__name__ == tag)
                outs.append("returned " + type(r).__name__)
                nontriv += attempt == 0
            except JSONSerializationError as e:
                outs.append(type(e).__name__)
            except Exception as e:  # undocumented exception
                ok = False
                outs.append("%s: %s" % (type(e).__name__, e))
        ok = ok and outs[0] == outs[1]
        out = outs[0] if outs[0] == outs[1] else "first: %s / second: %s" % tuple(outs)
        if not ok and outs[0] != outs[1]:
            out = "Repeat " + out
        if len(samples) < 4 or (not ok and len(samples) < 8):
            samples.append(dict(tag=tag, outcome=out))
        if not ok:
            findings.append(dict(key="pool:" + _category(tag, out), kind="undocumented-outcome", reproduced=True, model=dict(tag=tag), detail=out))
    return findings, n, nontriv, samples


def _category(tag, out):
    return re.sub(r"[^A-Za-z]+", "-", out.split(":")[0])


# ---- part 3: CrossHair ---------------------------------------------------------------------------
def crosshair_part(tier, jobs):
    from . import xh19_targets as T

    path = os.path.join(core.VERIF, "harness", "xh19_targets.py")
    src = open(path).read().splitlines()
    per = 20 if tier == "quick" else 90
    procs = []
    env = dict(os.environ, PYTHONPATH=core.VERIF + os.pathsep + os.environ.get("PYTHONPATH", ""))
    for name in T.OBLIGATIONS + T.TWINS:
        line = [i for i, l in enumerate(src) if l.startswith("def %s(" % name)][0] + 2
        cmd = [sys.executable, "-m", "crosshair", "check", "--report_all", "--per_condition_timeout", str(per), "%s:%d" % (path, line)]
        procs.append((name, subprocess.Popen(cmd, stdout=subprocess.PIPE, stderr=subprocess.STDOUT, text=True, env=env, cwd=core.VERIF), time.time()))
    res = {}
    for name, p, t0 in procs:
        try:
            out, _ = p.communicate(timeout=per * 4 + 60)
        except subprocess.TimeoutExpired:
            p.kill()
            out = "TIMEOUT"
        res[name] = (out, time.time() - t0)
    findings, summary, errors = [], {}, []
    for name, (out, secs) in res.items():
        status = "inconclusive"
        m = re.search(r"error: (.*) when calling (\w+)\((.*)\)", out, re.S)
        if "Confirmed over all paths" in out:
            status = "confirmed"
        elif m:
            status = "counterexample"
        elif "Unable to meet precondition" in out:
            status = "unable-to-meet-precondition"
        summary[name] = dict(status=status, seconds=round(secs, 1))
        if name in T.TWINS:
            # reachability twin: its negated postcondition must be refuted, else the obligation is vacuous
            if status != "counterexample":
                errors.append("crosshair twin %s not refuted (%s): the harness may be vacuous" % (name, status))
            continue
        if status == "counterexample":
            call = "%s(%s)" % (m.group(2), re.sub(r"\)\s*\(which returns.*$", "", m.group(3).strip(), flags=re.S))
            call = call.split(") (which")[0]
            reproduced, detail = False, m.group(1)[:200]
            try:
                ok = eval(call, vars(T))
                reproduced = ok is False
                detail += " | native: returns %r" % (ok,)
            except Exception as e:
                reproduced = True
                detail += " | native: raises %s: %s" % (type(e).__name__, e)
            findings.append(dict(key="crosshair:" + name, kind=re.sub(r"[^A-Za-z]+", "-", m.group(1).split(":")[0])[:40], reproduced=reproduced, model=dict(call=call), detail=detail))
    return findings, summary, errors


def cases(tier, seed):
    L = 7 if tier == "quick" else 9
    cs = []
    for n in range(0, L + 1):
        for ik in IMPORT_KINDS:
            for ak in (ATTR_KINDS if ik == "module" else ["missing"]):
                cs.append(Case("str-tag|len=%d|import:%s|attr:%s" % (n, ik, ak), str_tag_case(n, ik, ak), key="str-tag|import:%s|attr:%s" % (ik, ak), timeout=900, max_paths=400000, validate=1, meta=dict(length=n)))
    for n in range(0, min(L, 5) + 1):
        cs.append(Case("str-tag-nested|len=%d" % n, str_tag_case(n, "module", "serializer", nested=True), key="str-tag-nested", timeout=600, validate=1))
        cs.append(Case("str-tag-twice-in-a-list-missing|len=%d" % n, str_tag_case(n, "module", "missing", nested="twice"), key="str-tag-twice", timeout=600, validate=1))
        cs.append(Case("str-tag-twice-in-a-list-not-found|len=%d" % n, str_tag_case(n, "module-not-found", "missing", nested="twice"), key="str-tag-twice", timeout=600, validate=1))
        cs.append(Case("str-tag-nested-missing|len=%d" % n, str_tag_case(n, "module", "missing", nested=True), key="str-tag-nested", timeout=600, validate=1))
    cs += [
        Case("int-tag", int_tag_case(), validate=2),
        Case("other-json-types", other_json_types_case(), validate=2),
        Case("missing-key", missing_key_case(), validate=1),
    ]
    return cs


def describe(tier):
    L = 7 if tier == "quick" else 9
    return dict(
        rule="(1) one symbolic ASCII tag string x every import outcome x every kind of attribute the name can resolve to, explored exhaustively by symx; "
        "(2) %d x %d categorical tags with the real import system; (3) CrossHair obligations on str/int/float/bool/None/list/dict tags; "
        "non-trivial = reaches from_json's resolution code (every case does)" % (len(POOL_MODULES), len(POOL_NAMES)),
        bounds=dict(tag_length="<= %d ASCII characters (symx part); <= 4 unicode characters (CrossHair part)" % L, import_outcomes=IMPORT_KINDS, attribute_kinds=ATTR_KINDS),
        outside=["non-ASCII tags in the exhaustive part (covered only by CrossHair bug hunting)", "modules whose import raises something other than ImportError", "tags longer than the bound"],
        assumptions=[
            "stub: importlib.import_module(name) raises ValueError for '', TypeError for a relative name, else an arbitrary outcome among ModuleNotFoundError / ImportError / returns a module (its documented contract; checked against CPython in the pool part)",
            "stub: getattr(module, name) raises AttributeError or returns one of %d kinds of object" % (len(ATTR_KINDS) - 1),
            "CrossHair 'Not confirmed' is inconclusive (reported in coverage.crosshair), not success",
        ],
        engine="symx with symbolic strings as vectors of bounded character codes (z3 LIA); CrossHair 0.0.110 as second engine",
    )


def run(tier, seed, jobs, only):
    t0 = time.time()
    cs = cases(tier, seed)
    if only:
        cs = [c for c in cs if only in c.name]
    # CrossHair processes run in the background while symx explores
    import threading

    ch = {}

    def _bg():
        try:
            ch["r"] = crosshair_part(tier, jobs)
        except Exception as e:  # crosshair missing or crashed: inconclusive, reported
            ch["r"] = ([], {}, ["crosshair part failed: %r" % (e,)])

    th = threading.Thread(target=_bg)
    if not only:
        th.start()
    results = core.run_cases(cs, seed, jobs)
    pf, pn, pnt, psamples = pool_findings() if not only else ([], 0, 0, [])
    if not only:
        th.join()
    cf, csum, cerr = ch.get("r", ([], {}, []))
    for r in results:
        if r.get("status") == "error":
            continue
    extra = dict(
        extra_cases=pn + len(csum),
        extra_evaluations=pn,
        extra_nontrivial=pnt + sum(1 for s in csum.values() if s["status"] != "unable-to-meet-precondition"),
        samples=psamples,
        coverage=dict(crosshair=csum, crosshair_inconclusive=sorted(k for k, s in csum.items() if s["status"] == "inconclusive"), pool_tags=pn),
    )
    rc = core.finish(PROPERTY, tier, seed, LEVEL, results, describe(tier), t0, extra=extra, extra_findings=pf + cf)
    if cerr:
        for e in cerr:
            print("HARNESS-ERROR %s" % e)
        if rc == core.EXIT_OK:
            rc = core.EXIT_HARNESS
    return rc
