"""C18 -- JSON serialisation round-trips polymorphic objects through real JSON text (bounded exploration: the character /
float level of CPython's json codec is C code and decimal text, out of reach of the solvers; leaves come from a boundary-value
pool and the solver-driven engine makes the exploration of value SHAPES exhaustive)."""
from __future__ import annotations

import json
import math
import uuid
from fractions import Fraction

from vlib.core import Case

from krrood.adapters.json_serializer import (
    JSON_TYPE_NAME,
    JSONSerializableTypeRegistry,
    SubclassJSONSerializer,
    from_json,
    to_json,
)

PROPERTY = "C18"
LEVEL = "exploration"


# ---- serialisable class chain (depth 1..3, one with a non-ASCII name) ------------------------------
class JA(SubclassJSONSerializer):
    def __init__(self, x=None, items=None):
        self.x = x
        self.items = [] if items is None else items

    def to_json(self):
        return {**super().to_json(), "x": to_json(self.x), "items": to_json(self.items)}

    @classmethod
    def _from_json(cls, data, **kwargs):
        return cls(from_json(data["x"]), from_json(data["items"]))

    def __eq__(self, o):
        return type(o) is type(self) and same(self.x, o.x) and same(self.items, o.items)

    __hash__ = None


class JB(JA):
    pass


class JC(JB):
    pass


class Größe(JB):  # a non-ASCII identifier is a legal class name
    pass


class JU(SubclassJSONSerializer):
    """written with the in-place idiom: data = super().to_json(); data.update(...)"""

    def __init__(self, x=None, items=None):
        self.x = x
        self.items = [] if items is None else items

    def to_json(self):
        data = super().to_json()
        data.update({"x": to_json(self.x), "items": to_json(self.items)})
        return data

    @classmethod
    def _from_json(cls, data, **kwargs):
        return cls(from_json(data["x"]), from_json(data["items"]))

    def __eq__(self, o):
        return type(o) is type(self) and same(self.x, o.x) and same(self.items, o.items)

    __hash__ = None


# ---- registered third-party types: a base and a subclass of it, registered base first --------------
class Money:
    def __init__(self, amount):
        self.amount = amount

    def __eq__(self, o):
        return type(o) is type(self) and self.amount == o.amount

    __hash__ = None


class Salary(Money):
    pass


def _register():
    from krrood.utils import get_full_class_name

    reg = JSONSerializableTypeRegistry()
    reg.register(Money, lambda o: {JSON_TYPE_NAME: get_full_class_name(type(o)), "amount": o.amount}, lambda d, **k: Money(d["amount"]))
    reg.register(Salary, lambda o: {JSON_TYPE_NAME: get_full_class_name(type(o)), "cents": o.amount * 100}, lambda d, **k: Salary(d["cents"] // 100))
    reg.register(Fraction, lambda o: {JSON_TYPE_NAME: get_full_class_name(type(o)), "n": o.numerator, "d": o.denominator}, lambda d, **k: Fraction(d["n"], d["d"]))


def same(a, b):
    """equal AND of exactly the same classes all the way down; floats compared with their sign (repr)"""
    if type(a) is not type(b):
        return False
    if isinstance(a, float):
        return repr(a) == repr(b)
    if isinstance(a, list):
        return len(a) == len(b) and all(same(x, y) for x, y in zip(a, b))
    return a == b


LEAVES = [
    None, True, False, 0, -1, 1, 2**63, -(2**63) - 1, 10**30, 0.0, -0.0, 1.5, 1e308, 5e-324, float("inf"), float("-inf"), 0.1 + 0.2,
    "", "a", "é", " ", "\U0001F600", '"\\\n\t', "\ud800", "null", " ", "\x00",
    uuid.UUID("12345678123456781234567812345678"), uuid.UUID(int=0), Fraction(-3, 7), Money(5), Salary(7),
]
SMALL = [None, 0, "é", 1.5, uuid.UUID(int=1), Salary(3)]
CLASSES = [JA, JB, JC, Größe]


def pick_leaf(ctx, name, pool):
    return pool[ctx.choice(name, len(pool))]


def inner_value(ctx, name, depth):
    """a value of nesting depth <= depth over the small pool"""
    kinds = ["leaf"] + (["list0", "list1", "list2", "obj"] if depth > 0 else [])
    k = kinds[ctx.choice(name + ".kind", len(kinds))]
    if k == "leaf":
        return pick_leaf(ctx, name + ".leaf", SMALL)
    if k == "list0":
        return []
    if k == "list1":
        return [inner_value(ctx, name + "[0]", depth - 1)]
    if k == "list2":
        return [inner_value(ctx, name + "[0]", depth - 1), pick_leaf(ctx, name + "[1]", SMALL[:3])]
    cls = CLASSES[ctx.choice(name + ".cls", len(CLASSES))]
    return cls(inner_value(ctx, name + ".x", depth - 1), [[], [pick_leaf(ctx, name + ".item", SMALL)]][ctx.choice(name + ".items", 2)])


def tags_ok(v, j):
    """the serialised form of every object carries its fully qualified type tag"""
    if isinstance(v, list):
        return isinstance(j, list) and len(j) == len(v) and all(tags_ok(a, b) for a, b in zip(v, j))
    if isinstance(v, (SubclassJSONSerializer, uuid.UUID, Money, Fraction)):  # (JU is a SubclassJSONSerializer)
        if not (isinstance(j, dict) and j.get(JSON_TYPE_NAME) == type(v).__module__ + "." + type(v).__name__):
            return False
        if isinstance(v, (JA, JU)):
            return tags_ok(v.x, j.get("x")) and tags_ok(v.items, j.get("items"))
    return True


def round_trip_case(top, depth, mode=None, cls_index=0):
    def h(ctx):
        _register()
        if top == "leaf":
            v = pick_leaf(ctx, "leaf", LEAVES)
        elif top == "list":
            if mode == "one-nested":
                v = [inner_value(ctx, "e0", depth - 1)]
            elif mode == "nested+leaf":
                v = [inner_value(ctx, "e0", depth - 1), pick_leaf(ctx, "e1", SMALL[:3])]
            elif mode == "two-leaves":
                v = [pick_leaf(ctx, "e0", LEAVES), pick_leaf(ctx, "e1", LEAVES)]
            elif mode == "one-class-twice":
                # several instances of exactly the same class with different field values in one value
                cls = (CLASSES + [JU])[ctx.choice("cls", len(CLASSES) + 1)]
                a, b = pick_leaf(ctx, "xa", SMALL), pick_leaf(ctx, "xb", SMALL)
                v = [cls(a, []), cls(b, [cls(a, [])] if ctx.flag("nested") else [])]
            elif mode == "aliased":
                # the same list / object occurs several times in the value (a finite value, not a cycle)
                inner = inner_value(ctx, "e0", depth - 1)
                shared = [inner] if ctx.flag("wrap") else inner
                v = [shared, shared] if ctx.flag("twice") else [shared, [shared], JA(shared, [shared] if isinstance(shared, list) else [])]
            else:
                v = []
        else:
            cls = CLASSES[cls_index]
            if mode == "x-nested":
                v = cls(inner_value(ctx, "x", depth - 1), [[], [pick_leaf(ctx, "item", SMALL)]][ctx.choice("items", 2)])
            elif mode == "x-leaf":
                v = cls(pick_leaf(ctx, "x", LEAVES), [])
            elif mode == "items-nested":
                v = cls(pick_leaf(ctx, "x", SMALL), [inner_value(ctx, "item", depth - 1)])
            else:
                v = cls(pick_leaf(ctx, "x", SMALL[:3]), [pick_leaf(ctx, "item0", SMALL), pick_leaf(ctx, "item1", LEAVES)])
        out = {}
        try:
            j = to_json(v)
            text = json.dumps(j)
            back = from_json(json.loads(text))
        except Exception as e:
            ctx.observe("raised %s: %s" % (type(e).__name__, str(e)[:100]), repr(v)[:120])
            out["round-trip-does-not-raise"] = False
            return out
        ctx.observe(text[:200])
        ctx.note("nonempty", 1)
        out["value-comes-back-equal-with-the-same-classes"] = same(v, back)
        if not out["value-comes-back-equal-with-the-same-classes"]:
            ctx.observe(repr(v)[:150], repr(back)[:150])
        out["every-object-carries-its-qualified-type-tag"] = tags_ok(v, j)
        return out

    return h


def cases(tier, seed):
    depth = 2 if tier == "quick" else 3
    cs = [Case("leaf values", round_trip_case("leaf", 0), validate=0)]
    for mode in ("empty", "one-nested", "nested+leaf", "two-leaves", "aliased", "one-class-twice"):
        cs.append(Case("lists|%s|depth<=%d" % (mode, depth), round_trip_case("list", depth, mode), key="lists|" + mode, validate=0, timeout=900 if tier == "quick" else 3000, max_paths=2000000))
    for ci, c in enumerate(CLASSES):
        for mode in ("x-nested", "x-leaf", "items-nested", "items-two"):
            cs.append(Case("objects|%s|%s|depth<=%d" % (c.__name__, mode, depth), round_trip_case("obj", depth, mode, ci), key="objects|%s|%s" % (c.__name__, mode), validate=0,
                           timeout=900 if tier == "quick" else 3000, max_paths=2000000))
    return cs


def describe(tier):
    depth = 2 if tier == "quick" else 3
    return dict(
        rule="the SHAPE of the value is symbolic: nesting depth <= %d, lists of width <= 2, per position a bounded symbolic choice between a leaf, a list and an object of a "
        "SubclassJSONSerializer chain of depth 1..3 (one class with a non-ASCII name) whose fields recurse; leaves from a boundary-value pool (None, booleans, 0, -1, "
        "2**63, 10**30, 0.0, -0.0, 1e308, 5e-324, +-inf, empty / ASCII / BMP / astral / escape / lone-surrogate / NUL strings, UUIDs, fractions.Fraction, and two "
        "registered third-party types in an inheritance relation). Each path runs from_json(json.loads(json.dumps(to_json(v)))) and checks equality with exactly the same "
        "classes (floats with their sign) and the fully qualified type tag of every object in the serialised form. distinct = distinct shapes; non-trivial = round trip ran" % depth,
        bounds=dict(depth=depth, list_width=2, leaves=len(LEAVES)),
        outside=["the character / float level of CPython's json codec (C code, decimal text): leaves are pool values, not symbolic; z3/cvc5/CrossHair do not decide it in practical time (CrossHair: 'Not confirmed' after 40 s for one int)",
                 "NaN (nan != nan is not krrood's)", "tuples and sets (the property speaks of lists)"],
        assumptions=["the solver's role is exhaustive, constraint-pruned enumeration of a finite shape space"],
        explanation="bounded exhaustive exploration of value shapes driven by the symx engine",
    )
