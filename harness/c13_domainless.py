"""C13 -- domain-less variables range over exactly the live instances of their type."""
from __future__ import annotations

import gc
import weakref

from vlib.core import Case
from vlib.symx import AND, EQ

from krrood.entity_query_language.entity import entity, let
from krrood.entity_query_language.quantify_entity import an
from krrood.entity_query_language.symbol_graph import SymbolGraph

from . import sgworld as W
from .eqlworld import index_of

PROPERTY = "C13"
LEVEL = "model_checking"

CREATE = ["T", "Sub", "Other", "Falsy", "Diamond"]
QUERY = ["T", "Sub"]


def history_case(L, first_ops, virtual_ids=True):
    """a history of <= L operations (the first ones fixed by the case, the rest bounded symbolic choices) followed by a
    query of every type"""

    def h(ctx):
        g = W.fresh_graph()
        ids = W.VirtualIds(ctx, enabled=virtual_ids)
        ids.install()
        try:
            objs, census, trace = [], [], []
            v = {"query-returns-exactly-the-live-instances-each-once": True, "no-exception": True}
            tagc = [0]

            declared = []  # queries that were built earlier in the history and are evaluated at its end

            def query(tname, q=None):
                cls = W.CLASSES[tname]
                try:
                    res = list((q if q is not None else an(entity(let(cls, None)))).evaluate())
                except Exception as e:
                    v["no-exception"] = False
                    ctx.observe("query %s raised %s: %s" % (tname, type(e).__name__, str(e)[:80]))
                    return
                exp = [w() for (w, c) in census if w() is not None and issubclass(c, cls)]
                got_ids = sorted(id(o) for o in res)
                exp_ids = sorted(id(o) for o in exp)
                if got_ids != exp_ids:
                    v["query-returns-exactly-the-live-instances-each-once"] = False
                    ctx.observe("query %s: got %d (distinct %d, None %d), expected %d" % (tname, len(res), len(set(got_ids)), sum(o is None for o in res), len(exp)))
                del res, exp

            def do(op):
                trace.append(op)
                if op[0] == "create":
                    tagc[0] += 1
                    o = W.create(ids, W.CLASSES[op[1]], tag=tagc[0])
                    objs.append(o)
                    census.append((weakref.ref(o), W.CLASSES[op[1]]))
                elif op[0] == "drop":
                    W.drop(ids, objs, op[1])
                elif op[0] == "collect":
                    gc.collect()
                elif op[0] == "query":
                    query(op[1])
                elif op[0] == "declare":  # the variable is declared now, the query is evaluated later: it ranges over what is alive THEN
                    declared.append((op[1], an(entity(let(W.CLASSES[op[1]], None)))))
                elif op[0] == "clear":
                    # the registry is re-created: instances made before are forgotten by design
                    nonlocal_g[0] = W.fresh_graph()
                    del census[:]
                    del declared[:]

            nonlocal_g = [g]
            for s in range(L):
                live = [i for i, o in enumerate(objs) if o is not None]
                opts = [("create", c) for c in CREATE] + [("drop", i) for i in live] + [("collect",)] + [("query", t) for t in QUERY] + [("clear",), ("declare", "T")]
                if s < len(first_ops):
                    op = first_ops[s]
                    if op not in opts:
                        ctx.assume(False)
                else:
                    op = opts[ctx.choice("op%d" % s, len(opts))]
                do(op)
            for (t, q) in declared:
                trace.append(("evaluate-declared", t))
                query(t, q)
            for t in QUERY + ["Other"]:
                do(("query", t))
            ctx.observe([list(o) for o in trace[:L]])
            ctx.note("nonempty", any(o is not None for o in objs))
            ctx.note("id_reused", ids.reused)
            return v
        finally:
            ids.uninstall()
            objs = census = None

    return h


def cases(tier, seed):
    L = 4 if tier == "quick" else 5
    cs = []
    firsts = [[("create", c)] for c in CREATE] + [[("query", "T")], [("clear",)], [("collect",)], [("declare", "T")]]
    if tier != "quick":
        firsts = [[("create", c), op2] for c in CREATE for op2 in [("create", d) for d in CREATE] + [("drop", 0), ("collect",), ("query", "T"), ("query", "Sub"), ("clear",)]] + [[("query", "T")], [("clear",)], [("collect",)], [("declare", "T")]]
    for f in firsts:
        nm = "history|first=%s" % "+".join(":".join(map(str, o)) for o in f)
        if tier != "quick" and len(f) == 1:
            # one fixed operation + 4 free ones does not finish within the budget (measured: 711 s, incomplete): these four keep the
            # quick tier's length in the thorough tier
            cs.append(Case(nm + "|L=4", history_case(4, f), key=nm, reset=W.world_reset, validate=0, timeout=3000, max_paths=400000))
            continue
        cs.append(Case(nm + "|L=%d" % L, history_case(L, f), key=nm, reset=W.world_reset, validate=0, timeout=900 if tier == "quick" else 3000, max_paths=400000))
    return cs


def describe(tier):
    L = 4 if tier == "quick" else 5
    return dict(
        rule="histories of %d operations chosen by bounded symbolic choices from {create T / Sub(T) / Other / Falsy(T) (an instance whose truth value is False) / Diamond(Sub, Sub2) (reachable from T over two inheritance paths), drop the program's reference to instance i, gc.collect(), "
        "query T / Sub with an(entity(let(type, None))), declare such a query now and evaluate it at the end of the history, SymbolGraph clear + re-create}, followed by a query of every type; run on the REAL SymbolGraph, rustworkx graph, "
        "weakref and gc; id() as seen by symbol_graph.py is a nondeterministic allocator (any value not used by a live object, in particular the id of a dead one). "
        "After every query: the result multiset equals the harness's own weak-reference census of live instances of the type and its subclasses. "
        "non-trivial = some instance alive at the end" % L,
        bounds=dict(history_length=L, classes="T, Sub(T), SubSub, Other", ids="every reuse pattern of dead ids"),
        outside=["histories longer than %d" % L + ("" if tier == "quick" else " (4 when the history starts with a query, a declaration, clear or collect)"), "instances created by from_dao / unpickling", "threads"],
        assumptions=["stub: id(obj) returns an arbitrary value distinct from the ids of objects alive at the same time (CPython's contract); counterexamples are replayed with the real id()",
                     "after SymbolGraph().clear() earlier instances are forgotten by design (the census restarts)",
                     "solver role: the history is a vector of finite symbolic choices; the exploration is exhaustive within the bound"],
    )
