"""Generate (with the current tree's ORMatic) and import the DAO layer for the harness model -- at check time."""
from __future__ import annotations

import atexit
import importlib.util
import os
import shutil
import sys
import tempfile

_cache = {}
_tmpdirs = []


def _cleanup():
    for d in _tmpdirs:
        shutil.rmtree(d, ignore_errors=True)


atexit.register(_cleanup)


def generate_source(classes, alternative_mappings=(), type_mappings=None) -> str:
    import io

    from krrood.class_diagrams.class_diagram import ClassDiagram
    from krrood.ormatic.ormatic import ORMatic

    o = ORMatic(class_dependency_graph=ClassDiagram(list(classes)), alternative_mappings=list(alternative_mappings), type_mappings=dict(type_mappings or {}))
    o.make_all_tables()
    d = tempfile.mkdtemp(prefix="verif_ormsrc_")
    try:
        path = os.path.join(d, "generated.py")
        with open(path, "w") as f:
            o.to_sqlalchemy_file(f)  # the generator formats the file it wrote (needs a real file)
        return open(path).read()
    finally:
        shutil.rmtree(d, ignore_errors=True)


def import_source(src: str, modname: str):
    d = tempfile.mkdtemp(prefix="verif_orm_")
    _tmpdirs.append(d)
    path = os.path.join(d, modname + ".py")
    with open(path, "w") as f:
        f.write(src)
    spec = importlib.util.spec_from_file_location(modname, path)
    mod = importlib.util.module_from_spec(spec)
    sys.modules[modname] = mod
    spec.loader.exec_module(mod)
    return mod


def harness_dao():
    """the DAO module of harness.ormmodel, generated once per process from /repo's current source"""
    if "dao" not in _cache:
        from sqlalchemy.orm import configure_mappers

        from . import ormmodel as M

        src = generate_source(M.CLASSES, M.ALTERNATIVE_MAPPINGS)
        mod = import_source(src, "verif_harness_dao")
        configure_mappers()
        _cache["dao"] = mod
        _cache["src"] = src
    return _cache["dao"]
