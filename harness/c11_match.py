"""C11 -- pattern matching is equivalent to the explicit query it abbreviates."""
from __future__ import annotations

from dataclasses import dataclass, field
from typing import Any, List, Optional

from vlib.core import Case
from vlib.symx import AND, OR, NOT, IMPLIES, IFF, EQ, SUM, B2I

from krrood.entity_query_language.quantify_entity import an
from krrood.entity_query_language.match import (
    match, match_any, match_all, select, select_any, select_all, entity_matching, entity_selection,
)
from krrood.entity_query_language.predicate import Symbol
from krrood.entity_query_language.symbol_graph import SymbolGraph
from krrood.entity_query_language.symbolic import UnificationDict

from .eqlworld import eql_reset, index_of

PROPERTY = "C11"
LEVEL = "model_checking"


# identity-equal family
@dataclass(eq=False)
class MQ(Symbol):
    v: int = 0
    w: int = 0
    tags: List[int] = field(default_factory=list)


@dataclass(eq=False)
class MQ2(MQ):
    pass


@dataclass(eq=False)
class MP(Symbol):
    a: int = 0
    kid: MQ = None
    kids: List[MQ] = field(default_factory=list)
    vals: List[int] = field(default_factory=list)


@dataclass(eq=False)
class MP2(MP):
    pass


# value-equal family (dataclass __eq__, unhashable)
@dataclass
class VMQ(Symbol):
    v: int = 0
    w: int = 0


@dataclass
class VMP(Symbol):
    a: int = 0
    kid: VMQ = None
    kids: List[VMQ] = field(default_factory=list)
    vals: List[int] = field(default_factory=list)


_graph_ready = [False]


def reset():
    eql_reset()
    if not _graph_ready[0]:
        SymbolGraph().clear()  # rebuild the class diagram so that it knows the harness classes
        SymbolGraph()
        _graph_ready[0] = True


# ---------------------------------------------------------------------------------------------
# patterns: name -> (needs, builder(world) -> kwargs for the root match, oracle(world, obj) -> term, selections)
# ---------------------------------------------------------------------------------------------
class W:
    """world of one path"""

    def __init__(self, ctx, N, veq, needs):
        P, Q = (VMP, VMQ) if veq else (MP, MQ)
        self.veq = veq
        self.k = [ctx.fresh_int("k%d" % i) for i in range(3)]
        self.kb = [ctx.fresh_int("kb%d" % i, 0, 2) for i in range(2)]  # literals compared with elements of vals (bounded: they get hashed)
        self.pool = [Q(ctx.fresh_int("qv%d" % i), ctx.fresh_int("qw%d" % i)) for i in range(2)]
        if not veq and "sub" in needs:
            self.pool.append(MQ2(ctx.fresh_int("qv2"), ctx.fresh_int("qw2")))
        if not veq and "tags" in needs:
            for j, q in enumerate(self.pool):
                q.tags = [ctx.fresh_int("tag%d_%d" % (j, i), 0, 1) for i in range(ctx.choice("ntags%d" % j, 2))]
        self.objs = []
        n = ctx.choice("n", N + 1)
        for i in range(n):
            o = (MP2 if (not veq and "root-sub" in needs and ctx.flag("is2_%d" % i)) else P)(a=ctx.fresh_int("a%d" % i))
            if "kid-none" in needs:
                kc = ctx.choice("kid%d" % i, len(self.pool) + 1)
                o.kid = self.pool[kc] if kc < len(self.pool) else None  # an Optional attribute that is not set
            else:
                o.kid = self.pool[ctx.choice("kid%d" % i, len(self.pool))]
            if "kids" in needs:
                mask = ctx.choice("kids%d" % i, 2 ** len(self.pool))
                o.kids = [q for j, q in enumerate(self.pool) if mask >> j & 1]
                if o.kids and ctx.flag("dup%d" % i):
                    o.kids = o.kids + [o.kids[0]]  # a collection may hold the same element twice
            if "vals" in needs:
                nv = ctx.choice("nvals%d" % i, 3)
                o.vals = [ctx.fresh_int("val%d_%d" % (i, j), 0, 2) for j in range(nv)]
            self.objs.append(o)
        # the domain also holds an element of another type: it must be filtered out
        self.domain = list(self.objs) + [self.pool[0]]
        self.P, self.Q = P, Q

    def same(self, p, q):
        """python == between two pool elements"""
        if not self.veq:
            return p is q
        return AND(EQ(p.v, q.v), EQ(p.w, q.w))


def _distinct(xs):
    out = []
    for x in xs:
        if not any(x is y for y in out):
            out.append(x)
    return out


def _in_vals(o, k):
    return OR([EQ(e, k) for e in o.vals])


PATTERNS = {}


def pattern(name, needs=(), veq_ok=True, core=True):
    def deco(f):
        PATTERNS[name] = (f, set(needs), veq_ok, core)
        return f
    return deco


# each pattern function returns (kwargs builder result, oracle) given the world; select handles are returned in a dict
@pattern("a=k")
def _p1(w):
    return dict(a=w.k[0]), (lambda o: EQ(o.a, w.k[0])), {}


@pattern("vals=k (membership)", needs=("vals",))
def _p2(w):
    return dict(vals=w.kb[0]), (lambda o: _in_vals(o, w.kb[0])), {}


@pattern("a=[k0,k1] (in)")
def _p3(w):
    return dict(a=[w.k[0], w.k[1]]), (lambda o: OR(EQ(o.a, w.k[0]), EQ(o.a, w.k[1]))), {}


@pattern("kid=match(Q)(v=k)")
def _p4(w):
    return dict(kid=match(w.Q)(v=w.k[0])), (lambda o: EQ(o.kid.v, w.k[0])), {}


@pattern("kid=match(Q)(v=k0,w=k1)")
def _p4b(w):
    return dict(kid=match(w.Q)(v=w.k[0], w=w.k[1])), (lambda o: AND(EQ(o.kid.v, w.k[0]), EQ(o.kid.w, w.k[1]))), {}


@pattern("kid=match(Q2)(v=k) (subclass)", needs=("sub", "kid-none"), veq_ok=False)
def _p5(w):
    # the type filter also keeps unset (None) and differently typed values away from the attribute constraints
    return dict(kid=match(MQ2)(v=w.k[0])), (lambda o: AND(isinstance(o.kid, MQ2), EQ(o.kid.v, w.k[0])) if isinstance(o.kid, MQ2) else False), {}


@pattern("kid=match(Q2)() (type only)", needs=("sub", "kid-none"), veq_ok=False)
def _p6(w):
    return dict(kid=match(MQ2)()), (lambda o: isinstance(o.kid, MQ2)), {}


@pattern("kids=match(Q)(v=k) (nested on collection)", needs=("kids",))
def _p7(w):
    return dict(kids=match(w.Q)(v=w.k[0])), (lambda o: OR([EQ(q.v, w.k[0]) for q in o.kids])), {"#count": (lambda o: SUM([B2I(EQ(q.v, w.k[0])) for q in o.kids]))}


@pattern("kids=match(Q2)(v=k) (nested on collection, subclass)", needs=("kids", "sub"), veq_ok=False)
def _p7b(w):
    # ONE element must have both the type and the attribute value
    return (dict(kids=match(MQ2)(v=w.k[0])), (lambda o: OR([AND(isinstance(q, MQ2), EQ(q.v, w.k[0])) for q in o.kids])),
            {"#count": (lambda o: SUM([B2I(AND(isinstance(q, MQ2), EQ(q.v, w.k[0]))) for q in o.kids]))})


@pattern("kids=match(Q2)() (nested on collection, type only)", needs=("kids", "sub"), veq_ok=False, core=False)
def _p7c(w):
    return (dict(kids=match(MQ2)()), (lambda o: OR([isinstance(q, MQ2) for q in o.kids])),
            {"#count": (lambda o: SUM([B2I(isinstance(q, MQ2)) for q in o.kids]))})


@pattern("kids=match(Q)(tags=match_any([t]), v=k) (existential first, then a literal, on the same inner element)", needs=("kids", "tags"), veq_ok=False)
def _p7d(w):
    # ONE element of kids has the tag and the value (whatever the order of the keywords); an existential condition keeps one
    # witness per inner element, so an element that occurs twice in the collection counts once
    ok = lambda q: AND(OR([EQ(t, w.kb[0]) for t in q.tags]), EQ(q.v, w.k[0]))
    return (dict(kids=match(w.Q)(tags=match_any([w.kb[0]]), v=w.k[0])), (lambda o: OR([ok(q) for q in o.kids])), {"#count-range": ((lambda o: SUM([B2I(ok(q)) for q in _distinct(o.kids)])), (lambda o: SUM([B2I(ok(q)) for q in o.kids])))})


@pattern("kids=match(Q)(v=k, tags=match_any([t])) (literal first, then existential)", needs=("kids", "tags"), veq_ok=False, core=False)
def _p7e(w):
    ok = lambda q: AND(OR([EQ(t, w.kb[0]) for t in q.tags]), EQ(q.v, w.k[0]))
    return (dict(kids=match(w.Q)(v=w.k[0], tags=match_any([w.kb[0]]))), (lambda o: OR([ok(q) for q in o.kids])), {"#count-range": ((lambda o: SUM([B2I(ok(q)) for q in _distinct(o.kids)])), (lambda o: SUM([B2I(ok(q)) for q in o.kids])))})


@pattern("kids=match_any(Q)(v=k0, w=k1) (typed existential with two constraints)", needs=("kids",), veq_ok=False)
def _p8t(w):
    # ONE element has both values (how often an owner with several such elements is reported is not stated for the typed form)
    return dict(kids=match_any(w.Q)(v=w.k[0], w=w.k[1])), (lambda o: OR([AND(EQ(q.v, w.k[0]), EQ(q.w, w.k[1])) for q in o.kids])), {"#any-multiplicity": True}


@pattern("kids=match_any([q0])", needs=("kids",))
def _p8(w):
    return dict(kids=match_any([w.pool[0]])), (lambda o: OR([w.same(q, w.pool[0]) for q in o.kids])), {}


@pattern("kids=match_any([q0,q1])", needs=("kids",))
def _p8b(w):
    return dict(kids=match_any([w.pool[0], w.pool[1]])), (lambda o: OR([w.same(q, p) for q in o.kids for p in w.pool[:2]])), {}


@pattern("kids=match_any([]) (an empty literal collection matches nothing)", needs=("kids",))
def _p8e(w):
    return dict(kids=match_any([])), (lambda o: False), {}


@pattern("kids=match_all([]) (exactly the empty collection)", needs=("kids",), veq_ok=False)
def _p9e(w):
    return dict(kids=match_all([])), (lambda o: len(o.kids) == 0), {}


@pattern("kids=match_all([q0,q1])", needs=("kids",), veq_ok=False)
def _p9(w):
    return dict(kids=match_all([w.pool[0], w.pool[1]])), (lambda o: set(map(id, o.kids)) == {id(w.pool[0]), id(w.pool[1])}), {}


@pattern("kids=match_all([q0,q1,q0]) (repeated element in the pattern)", needs=("kids",), veq_ok=False)
def _p9c(w):
    return dict(kids=match_all([w.pool[0], w.pool[1], w.pool[0]])), (lambda o: set(map(id, o.kids)) == {id(w.pool[0]), id(w.pool[1])}), {}


@pattern("kids=match_all([q0])", needs=("kids",), veq_ok=False)
def _p9b(w):
    return dict(kids=match_all([w.pool[0]])), (lambda o: set(map(id, o.kids)) == {id(w.pool[0])}), {}


@pattern("vals=match_any([kb0,kb1])", needs=("vals",))
def _p10(w):
    return dict(vals=match_any([w.kb[0], w.kb[1]])), (lambda o: OR(_in_vals(o, w.kb[0]), _in_vals(o, w.kb[1]))), {}


@pattern("vals=match_all([kb0])", needs=("vals",), core=False)
def _p10b(w):
    return dict(vals=match_all([w.kb[0]])), (lambda o: AND(len(o.vals) > 0, AND([EQ(e, w.kb[0]) for e in o.vals]))), {}


@pattern("a=k0,kid=match(Q)(v=k1)")
def _p12(w):
    return dict(a=w.k[0], kid=match(w.Q)(v=w.k[1])), (lambda o: AND(EQ(o.a, w.k[0]), EQ(o.kid.v, w.k[1]))), {}


@pattern("kids=match_any([q0]),a=k0", needs=("kids",))
def _p12b(w):
    return dict(kids=match_any([w.pool[0]]), a=w.k[0]), (lambda o: AND(OR([w.same(q, w.pool[0]) for q in o.kids]), EQ(o.a, w.k[0]))), {}


@pattern("a=k0,kids=match(Q)(v=k1)", needs=("kids",), core=False)
def _p12c(w):
    return dict(a=w.k[0], kids=match(w.Q)(v=w.k[1])), (lambda o: AND(EQ(o.a, w.k[0]), OR([EQ(q.v, w.k[1]) for q in o.kids]))), {"#count": (lambda o: SUM([B2I(AND(EQ(o.a, w.k[0]), EQ(q.v, w.k[1]))) for q in o.kids]))}


@pattern("kid=select(Q)(v=k)")
def _p11(w):
    s = select(w.Q)
    return dict(kid=s(v=w.k[0])), (lambda o: EQ(o.kid.v, w.k[0])), {"kid": s}


@pattern("kid=select(Q)(v=k0),a=k1")
def _p11b(w):
    s = select(w.Q)
    return dict(kid=s(v=w.k[0]), a=w.k[1]), (lambda o: AND(EQ(o.kid.v, w.k[0]), EQ(o.a, w.k[1]))), {"kid": s}


@pattern("kids=select_any([q0,q1])", needs=("kids",), core=False)
def _p11c(w):
    s = select_any([w.pool[0], w.pool[1]])
    return dict(kids=s), (lambda o: OR([w.same(q, p) for q in o.kids for p in w.pool[:2]])), {"kids": s}


def harness(name, N, veq, root_sub=False):
    f, needs, veq_ok, core = PATTERNS[name]
    needs = set(needs) | ({"root-sub"} if root_sub else set())

    def h(ctx):
        w = W(ctx, N, veq, needs)
        kwargs, oracle, sels = f(w)
        # a nested match on a collection abbreviates a query over the flattened collection: one result per matching inner element
        count_fn = sels.pop("#count", None)
        any_multiplicity = sels.pop("#any-multiplicity", False)
        count_range = sels.pop("#count-range", None)
        root_type = MP2 if root_sub else w.P
        if sels:
            root = entity_selection(root_type, w.domain)
            q = an(root(**kwargs))
        else:
            root = None
            q = an(entity_matching(root_type, w.domain)(**kwargs))
        rows = []
        consistent = True
        for r in q.evaluate():
            if sels:
                o = r[root]
                i = index_of(w.objs, o)
                rows.append(i)
                for attr, s in sels.items():
                    got = r[s]
                    if i >= 0 and attr == "kid":
                        consistent = consistent and (got is w.objs[i].kid)
                    elif i >= 0:
                        # a selected collection part: an element (or the collection) of the matched element's attribute
                        consistent = consistent and (got is getattr(w.objs[i], attr) or any(got is e for e in getattr(w.objs[i], attr)))
            else:
                rows.append(index_of(w.objs, r))
        ctx.observe(rows)
        ctx.note("nonempty", bool(rows))
        truth = [AND(isinstance(o, root_type), oracle(o)) for o in w.objs]
        v = {}
        v["only-domain-elements-of-the-type"] = all(i >= 0 for i in rows)
        v["sound"] = AND([truth[i] for i in set(rows) if i >= 0]) if rows else True
        v["complete"] = AND([IMPLIES(truth[i], i in rows) for i in range(len(w.objs))])
        if any_multiplicity:
            pass
        elif count_range is not None:
            # an element that occurs twice in the collection: once (one witness per element) or once per occurrence - whether the
            # existential keyword de-duplicates depends on where it stands among the keywords and is not stated
            lo, hi = count_range
            v["once-per-matching-inner-element"] = AND([AND(rows.count(i) >= lo(o), rows.count(i) <= hi(o)) for i, o in enumerate(w.objs)])
        elif count_fn is None:
            v["each-element-once"] = len(set(rows)) == len(rows)
        else:
            v["once-per-matching-inner-element"] = AND([EQ(rows.count(i), count_fn(o)) for i, o in enumerate(w.objs)])
        v["selected-parts-consistent"] = consistent
        return v

    return h


def cases(tier, seed):
    N = 2 if tier == "quick" else 3
    cs = []
    for name, (f, needs, veq_ok, core) in PATTERNS.items():
        if tier == "quick" and not core:
            continue
        for veq in (False, True):
            if veq and not veq_ok:
                continue
            nm = "match(P)(%s)%s" % (name, "|value-eq" if veq else "")
            cs.append(Case(nm + "|N<=%d" % N, harness(name, N, veq), key=nm, reset=reset, validate=1,
                           timeout=300 if tier == "quick" else 1500, max_paths=60000 if tier == "quick" else 500000))
    for name in ("a=k", "kid=match(Q)(v=k)"):
        nm = "match(P2 subclass root)(%s)" % name
        cs.append(Case(nm + "|N<=%d" % N, harness(name, N, False, root_sub=True), key=nm, reset=reset, validate=1, timeout=300))
    return cs


def describe(tier):
    N = 2 if tier == "quick" else 3
    return dict(
        rule="one case per pattern (scalar literal, membership in a collection attribute, collection literal for a scalar attribute, nested match on a single-valued "
        "attribute with same type / subclass (type filter) / type only, nested match on a collection attribute, match_any / match_all with collection literals of "
        "objects and of ints, two constraints, select / select_any variants) x {identity-eq, value-eq dataclasses}; the domain also contains an element of another "
        "type; oracle = direct Python predicate per pattern lifted to z3; non-trivial = >= 2 feasible paths and a non-empty result on some path",
        bounds=dict(objects="0..%d matched-type elements + 1 foreign element" % N, pool="2-3 Q objects", attribute_values="unbounded integers (elements of vals: 0..2)", depth="<= 2"),
        outside=["patterns deeper than 2", "string attributes", "match_all on value-eq (unhashable) elements: krrood compares collections as sets"],
        assumptions=["Python semantics for == / in (equality based)", "result order not asserted"],
    )
