"""C06 -- ORMatic produces a valid, complete SQLAlchemy layer for every supported model.

(b) structure: a model specification is a vector of bounded symbolic choices (number of classes, bases, field kinds, reference
    targets, the order in which the classes are handed to ORMatic); the solver-driven exploration enumerates every valid
    specification within the bound; per specification the classes are synthesised and the REAL pipeline runs:
    ClassDiagram -> ORMatic -> make_all_tables -> to_sqlalchemy_file -> import -> configure mappers -> create_all (sqlite);
    the result is compared with an independent reading of dataclasses.fields / typing.get_type_hints.
(a) names: the name-building templates are located in the generator's source by AST, lifted to strings of bounded symbolic
    characters (vlib.symstr) and the solver searches for two different (class, field) pairs with the same association-table
    name, equal column names inside one association table, and case-only collisions; every hit is turned into a real model
    and pushed through the real generator -- only a reproduced failure is reported.
"""
from __future__ import annotations

import ast
import dataclasses
import enum
import itertools
import os
import sys
import types
import typing
from dataclasses import field, make_dataclass
from datetime import datetime
from typing import List, Optional, Set

from vlib import core, symx
from vlib.core import Case
from vlib.symstr import SymStr, fresh_str
from vlib.symx import AND, OR, NOT, EQ

from . import ormgen

PROPERTY = "C06"
LEVEL = "model_checking"

_counter = [0]


class Shade(enum.Enum):
    DARK = 1
    LIGHT = 2


class Level(int, enum.Enum):
    """an enum with a mix-in type"""

    LOW = 1
    HIGH = 2


SCALAR_KINDS = ["int", "str", "float", "float-inf", "mixin-enum", "bool", "opt-int", "enum", "opt-enum", "datetime", "list-int", "list-str", "private"]
REF_KINDS = ["ref", "opt-ref", "list-ref", "set-ref"]
NAMES = ["Alpha", "Beta", "Gamma"]


def build_model(spec):
    """spec: list of (base index or -1, [(field name, kind, target index or None), ...]).  Returns (module, classes)."""
    _counter[0] += 1
    modname = "verif_c06_model_%d_%d" % (os.getpid(), _counter[0])
    mod = types.ModuleType(modname)
    mod.Shade = Shade
    mod.Level = Level
    sys.modules[modname] = mod
    classes = []
    for i, (base, flds) in enumerate(spec):
        fs = []
        for fname, kind, target in flds:
            tname = NAMES[target] if target is not None else None
            if kind == "int":
                fs.append((fname, int, field(default=1)))
            elif kind == "str":
                fs.append((fname, str, field(default="s")))
            elif kind == "float":
                fs.append((fname, float, field(default=1.5)))
            elif kind == "float-inf":
                fs.append((fname, float, field(default=float("inf"))))  # a default whose repr is not a Python literal
            elif kind == "mixin-enum":
                fs.append((fname, Level, field(default=Level.LOW)))
            elif kind == "bool":
                fs.append((fname, bool, field(default=True)))
            elif kind == "opt-int":
                fs.append((fname, Optional[int], field(default=None)))
            elif kind == "enum":
                fs.append((fname, Shade, field(default=Shade.DARK)))
            elif kind == "opt-enum":
                fs.append((fname, Optional[Shade], field(default=None)))
            elif kind == "datetime":
                fs.append((fname, datetime, field(default=datetime(2020, 1, 1))))
            elif kind == "list-int":
                fs.append((fname, List[int], field(default_factory=list)))
            elif kind == "list-str":
                fs.append((fname, List[str], field(default_factory=list)))
            elif kind == "private":
                fs.append(("_" + fname, int, field(default=0)))
            elif kind == "ref":
                fs.append((fname, tname, field(default=None)))  # forward reference by name (non-optional reference)
            elif kind == "opt-ref":
                fs.append((fname, "Optional[%s]" % tname, field(default=None)))
            elif kind == "list-ref":
                fs.append((fname, "List[%s]" % tname, field(default_factory=list)))
            elif kind == "set-ref":
                fs.append((fname, "Set[%s]" % tname, field(default_factory=set)))
        bases = (classes[base],) if base >= 0 else ()
        cls = make_dataclass(NAMES[i], fs, bases=bases, module=modname, eq=False)
        setattr(mod, NAMES[i], cls)
        classes.append(cls)
    mod.Optional, mod.List, mod.Set = Optional, List, Set
    return mod, classes


def expected_layer(classes):
    """independent reading of the dataclasses: class -> (parent class or None, columns, to-one relationships, collections)"""
    out = {}
    mapped = set(classes)
    for c in classes:
        hints = typing.get_type_hints(c, vars(sys.modules[c.__module__]))
        parent = next((b for b in c.__mro__[1:] if b in mapped), None)
        inherited = {f.name for b in c.__mro__[1:] if dataclasses.is_dataclass(b) for f in dataclasses.fields(b)}
        cols, ones, manys = set(), set(), set()
        for f in dataclasses.fields(c):
            if f.name.startswith("_") or f.name in inherited:
                continue
            t = hints[f.name]
            origin = typing.get_origin(t)
            args = typing.get_args(t)
            if origin in (list, set):
                (manys if args[0] in mapped else cols).add(f.name)
            elif origin is typing.Union:
                inner = [a for a in args if a is not type(None)][0]
                (ones if inner in mapped else cols).add(f.name)
            else:
                (ones if t in mapped else cols).add(f.name)
        out[c] = (parent, cols, ones, manys)
    return out


def run_pipeline(classes, order):
    """the real generator end to end; returns (module or None, error string or None, source text)"""
    from sqlalchemy import create_engine

    ordered = [classes[i] for i in order]
    try:
        src = ormgen.generate_source(ordered)
    except Exception as e:
        return None, "generation failed: %s: %s" % (type(e).__name__, str(e)[:120]), None
    _counter[0] += 1
    try:
        mod = ormgen.import_source(src, "verif_c06_dao_%d_%d" % (os.getpid(), _counter[0]))
    except Exception as e:
        return None, "generated module does not import: %s: %s" % (type(e).__name__, str(e)[:120]), src
    try:
        mod.Base.registry.configure()
    except Exception as e:
        return None, "mappers do not configure: %s: %s" % (type(e).__name__, str(e)[:120]), src
    try:
        e = create_engine("sqlite://")
        mod.Base.metadata.create_all(e)
        e.dispose()
    except Exception as e:
        return None, "schema cannot be created: %s: %s" % (type(e).__name__, str(e)[:120]), src
    return mod, None, src


def compare_layer(mod, classes):
    import sqlalchemy

    problems = []
    exp = expected_layer(classes)
    for c, (parent, cols, ones, manys) in exp.items():
        dao = getattr(mod, c.__name__ + "DAO", None)
        if dao is None:
            problems.append("no DAO for %s" % c.__name__)
            continue
        want_base = getattr(mod, parent.__name__ + "DAO") if parent else mod.Base
        if dao.__bases__[0] is not want_base:
            problems.append("%sDAO derives from %s instead of %s" % (c.__name__, dao.__bases__[0].__name__, want_base.__name__))
        mapper = sqlalchemy.inspect(dao)
        own_cols = {col.name for col in mapper.local_table.columns}
        rels = {r.key: r for r in mapper.relationships}
        for n in cols:
            if n not in own_cols:
                problems.append("%s.%s: column missing" % (c.__name__, n))
        for n in ones:
            if n not in rels or rels[n].uselist:
                problems.append("%s.%s: to-one relationship missing" % (c.__name__, n))
        for n in manys:
            if n not in rels or not rels[n].uselist:
                problems.append("%s.%s: collection relationship missing" % (c.__name__, n))
        for f in dataclasses.fields(c):
            if f.name.startswith("_") and (f.name in own_cols or f.name in rels or f.name.lstrip("_") in own_cols):
                problems.append("%s.%s: private field was mapped" % (c.__name__, f.name))
    return problems


def spec_case(K, kinds1, kinds2, fixed, quick=True):
    """K classes; class i: base in {none, earlier}, two fields with kinds from kinds1 / kinds2; classes handed over in a
    symbolic order"""

    def h(ctx):
        spec = []
        for i in range(K):
            base = core_pick(ctx, "base%d" % i, i + 1, fixed) - 1
            flds = []
            for j, kinds in enumerate((kinds1, kinds2)):
                if not kinds:
                    continue
                kind = kinds[core_pick(ctx, "kind%d_%d" % (i, j), len(kinds), fixed)]
                target = None
                if kind in REF_KINDS:
                    target = core_pick(ctx, "target%d_%d" % (i, j), K, fixed)
                flds.append(("f%d" % j if not (base >= 0) else "g%d_%d" % (i, j), kind, target))
            spec.append((base, flds))
        orders = list(itertools.permutations(range(K)))
        order = orders[core_pick(ctx, "order", len(orders), fixed)]
        mod_model, classes = build_model(spec)
        ctx.observe([(b, [(n, k, t) for n, k, t in f]) for b, f in spec], order)
        ctx.note("nonempty", 1)
        v = {}
        mod, err, src = run_pipeline(classes, order)
        v["generates-imports-configures-creates"] = err is None
        if err:
            ctx.observe(err)
            return v
        problems = compare_layer(mod, classes)
        v["layer-mirrors-the-dataclasses"] = not problems
        if problems:
            ctx.observe(problems[:3])
        if order == orders[0] or not quick:
            # generating again (a fresh ORMatic over fresh class diagrams) gives the same text
            try:
                src2 = ormgen.generate_source([classes[i] for i in order])
            except Exception as e:
                src2 = "second generation failed: %r" % (e,)
            v["generation-is-deterministic"] = src2 == src
        return v

    return h


def core_pick(ctx, name, n, fixed):
    if name in fixed:
        return fixed[name] if fixed[name] < n else ctx.assume(False)
    return ctx.choice(name, n)


# ---------------------------------------------------------------------------------------------
# (a) name construction
# ---------------------------------------------------------------------------------------------
class Unmodelled(Exception):
    pass


EXTERNAL_ROOTS = ("self", "wrapped_field", "target_wrapped_table")
NAME_TARGETS = ("association_table_name", "left_fk_name", "right_fk_name")


def name_program():
    """the part of the generator's source that computes the association-table name and its two column names: the body
    of WrappedTable.create_one_to_many_relationship, the names these three depend on (backward slice over the assignments)
    and the module-level constants"""
    import krrood.ormatic.wrapped_table as WT

    tree = ast.parse(open(WT.__file__).read())
    consts = {}
    for st in tree.body:
        if isinstance(st, ast.Assign) and len(st.targets) == 1 and isinstance(st.targets[0], ast.Name) and isinstance(st.value, ast.Constant):
            consts[st.targets[0].id] = st.value.value
    fn = next((n for n in ast.walk(tree) if isinstance(n, ast.FunctionDef) and n.name == "create_one_to_many_relationship"), None)
    if fn is None:
        raise Unmodelled("create_one_to_many_relationship not found")
    relevant = set(NAME_TARGETS)
    changed = True
    while changed:
        changed = False
        for st in ast.walk(fn):
            if isinstance(st, ast.Assign) and len(st.targets) == 1 and isinstance(st.targets[0], ast.Name) and st.targets[0].id in relevant:
                for nm in ast.walk(st.value):
                    if isinstance(nm, ast.Name) and nm.id not in relevant and nm.id not in EXTERNAL_ROOTS and nm.id not in consts and nm.id != "len":
                        relevant.add(nm.id)
                        changed = True
    if not all(any(isinstance(st, ast.Assign) and isinstance(st.targets[0], ast.Name) and st.targets[0].id == t for st in ast.walk(fn)) for t in NAME_TARGETS):
        raise Unmodelled("the names are not computed by assignments to %s" % (NAME_TARGETS,))
    return fn, consts, relevant


def _ev(node, env, consts):
    """evaluate a string / int expression of the generator on (possibly symbolic) strings"""
    if isinstance(node, ast.Constant) and isinstance(node.value, (str, int)):
        return node.value
    if isinstance(node, ast.Name):
        if node.id in env:
            return env[node.id]
        if node.id in consts:
            return consts[node.id]
        raise Unmodelled("name %s" % node.id)
    if isinstance(node, ast.Attribute):
        key = ast.unparse(node)
        if key in env:
            return env[key]
        raise Unmodelled("attribute %s" % key)
    if isinstance(node, ast.JoinedStr):
        out = ""
        for p in node.values:
            if isinstance(p, ast.Constant):
                out = out + p.value
            elif isinstance(p, ast.FormattedValue) and p.conversion == -1 and p.format_spec is None:
                piece = _ev(p.value, env, consts)
                if isinstance(piece, int):
                    piece = str(piece)
                out = out + piece
            else:
                raise Unmodelled("formatted value with conversion / format spec")
        return out
    if isinstance(node, ast.Call):
        if isinstance(node.func, ast.Attribute) and node.func.attr == "lower" and not node.args and not node.keywords:
            return lower(_ev(node.func.value, env, consts))
        if isinstance(node.func, ast.Name) and node.func.id == "len" and len(node.args) == 1:
            return len(_ev(node.args[0], env, consts))
        raise Unmodelled("call %s" % ast.unparse(node.func))
    if isinstance(node, ast.BinOp) and isinstance(node.op, (ast.Add, ast.Sub)):
        l, r = _ev(node.left, env, consts), _ev(node.right, env, consts)
        return l + r if isinstance(node.op, ast.Add) else l - r
    if isinstance(node, ast.Subscript) and isinstance(node.slice, ast.Slice):
        v = _ev(node.value, env, consts)
        lo = _ev(node.slice.lower, env, consts) if node.slice.lower is not None else None
        hi = _ev(node.slice.upper, env, consts) if node.slice.upper is not None else None
        if node.slice.step is not None:
            raise Unmodelled("slice step")
        return v[lo:hi]
    if isinstance(node, ast.Compare) and len(node.ops) == 1 and isinstance(node.ops[0], (ast.Eq, ast.NotEq)):
        l, r = _ev(node.left, env, consts), _ev(node.comparators[0], env, consts)
        eq = (l == r) if len(l) == len(r) else False
        return eq if isinstance(node.ops[0], ast.Eq) else NOT(eq)
    raise Unmodelled(ast.unparse(node)[:60])


def _assigns_relevant(st, relevant):
    return any(isinstance(x, ast.Assign) and len(x.targets) == 1 and isinstance(x.targets[0], ast.Name) and x.targets[0].id in relevant for x in ast.walk(st))


def _exec(stmts, env, consts, relevant):
    for st in stmts:
        if isinstance(st, ast.Assign) and len(st.targets) == 1 and isinstance(st.targets[0], ast.Name):
            if st.targets[0].id in relevant:
                env[st.targets[0].id] = _ev(st.value, env, consts)
        elif isinstance(st, ast.If):
            if _assigns_relevant(st, relevant):
                c = _ev(st.test, env, consts)
                _exec(st.body if bool(c) else st.orelse, env, consts, relevant)  # a symbolic condition forks the path
        elif _assigns_relevant(st, relevant):
            raise Unmodelled("a name is assigned inside a %s statement" % type(st).__name__)


def generated_names(program, cls, fld, target):
    """run the generator's own name computation (interpreted from its current source) for the collection `fld` of class `cls`
    with elements of class `target`; returns (association table name, left column, right column)"""
    fn, consts, relevant = program
    env = {"self.tablename": cls + "DAO", "wrapped_field.field.name": fld, "self.ormatic.foreign_key_postfix": "_id", "target_wrapped_table.tablename": target + "DAO",
           "self.full_primary_key_name": cls + "DAO.database_id", "target_wrapped_table.full_primary_key_name": target + "DAO.database_id"}
    _exec(fn.body, env, consts, relevant)
    return tuple(env[t] for t in NAME_TARGETS)


def lower(s):
    if isinstance(s, SymStr):
        return SymStr([symx.ITE(AND(c >= 65, c <= 90), c + 32, c) for c in s.chars])
    return s.lower()


def ident(ctx, name, max_len):
    """symbolic identifier over [A-Za-z_] (first char a letter)"""
    s = fresh_str(ctx, name, max_len, min_len=1)
    if isinstance(s, SymStr):
        for i, c in enumerate(s.chars):
            ok = OR(c == 65, c == 66, c == 68, c == 79, c == 97, c == 98, c == 100, c == 111, (c == 95) if i else False)  # alphabet {A,B,D,O,a,b,d,o,_}
            ctx.assume(ok)
    return s


def name_collision_case(which, L, prefix=""):
    """prefix: a concrete string every class name starts with (long names reach length limits of the generator)"""
    try:
        program = name_program()
    except Unmodelled as e:
        program = e

    def h(ctx):
        if isinstance(program, Exception):
            raise symx.SymxError("the name computation of the generator is outside the modelled subset: %s" % program)
        c1, c2 = prefix + ident(ctx, "class1", L), prefix + ident(ctx, "class2", L)
        f1, f2 = ident(ctx, "field1", L), ident(ctx, "field2", L)
        v = {}
        symbolic = ctx.symbolic
        same_ci = (lower(c1) == lower(c2)) if len(c1) == len(c2) else False
        try:
            if which == "association-table-name":
                n1 = generated_names(program, c1, f1, "Target")[0]
                n2 = generated_names(program, c2, f2, "Target")[0]
                different_pairs = OR(NOT(c1 == c2) if len(c1) == len(c2) else True, NOT(f1 == f2) if len(f1) == len(f2) else True)
                collide = AND(different_pairs, n1 == n2) if len(n1) == len(n2) else False
                names = (c1, f1, c2, f2)
                label = "distinct-collections-get-distinct-association-tables"
            else:  # the two columns of one association table (c1 has a collection of c2, or of itself)
                _, l, r = generated_names(program, c1, f1, c2)
                collide = (l == r) if len(l) == len(r) else False
                names = (c1, f1, c2, None)
                label = "association-table-columns-differ"
        except Unmodelled as e:
            raise symx.SymxError("the name computation of the generator is outside the modelled subset: %s" % e)
        # a collision of the plain scheme <class>dao_<field> itself (class and field names that run into each other across the
        # separator, e.g. class A, field dao_A / class AdAO_, field A) is told apart from collisions that the name computation adds
        same_ref = False
        if which == "association-table-name":
            r1, r2 = lower(c1) + "dao_" + f1, lower(c2) + "dao_" + f2
            same_ref = (r1 == r2) if len(r1) == len(r2) else False
        SFX_CI, SFX_SEP = "[class-names-differ-only-in-case]", "[names-run-into-each-other-across-the-separator]"
        if symbolic:
            # the solver decides whether colliding names exist at all (unsat = none within the bound); a satisfying
            # assignment is a candidate that the native re-run pushes through the real generator
            v[label] = NOT(AND(collide, NOT(same_ci), NOT(same_ref)))
            v[label + SFX_CI] = NOT(AND(collide, same_ci))
            v[label + SFX_SEP] = NOT(AND(collide, NOT(same_ci), same_ref))
        else:
            if collide:
                ok = _real_model_ok(ctx, *names)
                v[label + (SFX_CI if same_ci else SFX_SEP if same_ref else "")] = ok
        ctx.note("nonempty", 1)
        return v

    return h


def _concretise(ctx, s):
    if isinstance(s, SymStr):
        return "".join(chr(symx.CTX.concretize(c) if symx.is_sym(c) else c) for c in s.chars)
    return s


def _real_model_ok(ctx, c1, f1, c2, f2):
    """build the real model with these identifiers and run the real generator"""
    n1, g1, n2 = _concretise(ctx, c1), _concretise(ctx, f1), _concretise(ctx, c2)
    g2 = _concretise(ctx, f2) if f2 is not None else None
    ctx.observe(n1, g1, n2, g2)
    _counter[0] += 1
    modname = "verif_c06_names_%d_%d" % (os.getpid(), _counter[0])
    mod = types.ModuleType(modname)
    sys.modules[modname] = mod
    mod.List = List
    try:
        T = make_dataclass("Target", [("v", int, field(default=0))], module=modname, eq=False)
        mod.Target = T
        if g2 is None:
            # one class with a collection of the other class (or of itself when the names coincide)
            tgt = n2 if n2 != n1 else n1
            A = make_dataclass(n1, [("v", int, field(default=0)), (g1, "List[%s]" % tgt, field(default_factory=list))], module=modname, eq=False)
            setattr(mod, n1, A)
            classes = [A, T]
            if n2 != n1:
                B = make_dataclass(n2, [("v", int, field(default=0))], module=modname, eq=False)
                setattr(mod, n2, B)
                classes.append(B)
        elif n1 == n2:
            A = make_dataclass(n1, [("v", int, field(default=0)), (g1, "List[Target]", field(default_factory=list)), (g2, "List[Target]", field(default_factory=list))], module=modname, eq=False)
            setattr(mod, n1, A)
            classes = [A, T]
        else:
            A = make_dataclass(n1, [("v", int, field(default=0)), (g1, "List[Target]", field(default_factory=list))], module=modname, eq=False)
            B = make_dataclass(n2, [("v", int, field(default=0)), (g2, "List[Target]", field(default_factory=list))], module=modname, eq=False)
            setattr(mod, n1, A)
            setattr(mod, n2, B)
            classes = [A, B, T]
    except Exception as e:  # not a valid model (e.g. keyword as identifier): no claim
        ctx.assume(False)
    m, err, src = run_pipeline(classes, list(range(len(classes))))
    if err:
        ctx.observe(err)
    return err is None


FIXED_SPEC = [(-1, [("f0_0", "list-ref", 1), ("f0_1", "list-ref", 2)]), (-1, [("f1_0", "list-ref", 0), ("f1_1", "enum", None)]), (0, [("f2_0", "set-ref", 1), ("f2_1", "list-ref", 2)])]


def generate_fixed_model_source():
    """the generated text for a fixed model with several collections (run in a fresh interpreter by the case below)"""
    _, classes = build_model(FIXED_SPEC)
    return ormgen.generate_source(classes)


def other_interpreter_case():
    """the string-hash seed of the interpreter is part of the environment: the generated text must not depend on it"""

    def h(ctx):
        import hashlib
        import subprocess

        seeds = [0, 1, 2, 3]
        a, b = seeds[ctx.choice("seed_a", 2)], seeds[2 + ctx.choice("seed_b", 2)]
        texts = []
        for sd in (a, b):
            env = dict(os.environ, PYTHONHASHSEED=str(sd))
            r = subprocess.run([sys.executable, "-c", "import re\nfrom harness import c06_ormatic as C\nprint(re.sub(r'verif_c06_model_[0-9_]+', 'MODEL', C.generate_fixed_model_source()))"],
                               capture_output=True, text=True, env=env, cwd=os.path.dirname(os.path.dirname(os.path.abspath(__file__))), timeout=300)
            if r.returncode != 0:
                ctx.observe("generation in a fresh interpreter failed: %s" % r.stderr[-300:])
                return {"generates-in-a-fresh-interpreter": False}
            texts.append(r.stdout)
        ctx.observe(a, b, hashlib.sha1(texts[0].encode()).hexdigest()[:8], hashlib.sha1(texts[1].encode()).hexdigest()[:8])
        ctx.note("nonempty", 1)
        return {"generates-in-a-fresh-interpreter": True, "same-text-whatever-the-hash-seed-of-the-interpreter": texts[0] == texts[1]}

    return h


def cases(tier, seed):
    cs = []
    S = ["int", "opt-int", "enum", "list-str", "private"] if tier == "quick" else SCALAR_KINDS
    R = ["ref", "opt-ref", "list-ref"] if tier == "quick" else REF_KINDS
    # one class, every pair of field kinds (incl. references to itself)
    for k1 in SCALAR_KINDS + REF_KINDS:
        cs.append(Case("model K=1|f0:%s" % k1, spec_case(1, [k1], SCALAR_KINDS + REF_KINDS if tier != "quick" else ["int", "list-ref", "opt-ref", "private"], {}), validate=0, timeout=900, max_paths=5000))
    # two classes: inheritance x field kinds x reference targets x declaration order
    for base1 in (0, 1):
        for k00 in S + R:
            nm = "model K=2|Beta%s|Alpha.f0:%s" % ("(Alpha)" if base1 else "", k00)
            cs.append(Case(nm, spec_case(2, [k00], (["opt-ref", "list-ref", "int"] if tier == "quick" else R + ["int"]), {"base1": base1, "kind0_0": 0}, quick=(tier == "quick")), key=nm, validate=0, timeout=1200 if tier == "quick" else 2400, max_paths=20000))
    if tier != "quick":
        for base1, base2 in [(0, 0), (1, 0), (1, 1), (1, 2)]:
            for k in R:
                nm = "model K=3|bases=%d,%d|f0:%s" % (base1 - 1, base2 - 1, k)
                cs.append(Case(nm, spec_case(3, [k], [], {"base1": base1, "base2": base2}), key=nm, validate=0, timeout=2400, max_paths=50000))
    cs.append(Case("generation in fresh interpreters with different hash seeds", other_interpreter_case(), key="other-interpreter", validate=0, timeout=900))
    L = 4 if tier == "quick" else 6
    cs.append(Case("names|association-table-name|len<=%d" % L, name_collision_case("association-table-name", L), key="names|association-table-name", validate=0, timeout=900, max_paths=200000, meta=dict(solver_finds_candidates_real_code_confirms=True)))
    cs.append(Case("names|association-columns|len<=%d" % L, name_collision_case("association-columns", L), key="names|association-columns", validate=0, timeout=900, max_paths=200000, meta=dict(solver_finds_candidates_real_code_confirms=True)))
    # long class names (a concrete prefix of 40 / 56 characters + symbolic rest): length limits in the name computation become visible
    for plen in (40, 56):
        cs.append(Case("names|association-table-name|class names of %d+<=%d characters" % (plen, L), name_collision_case("association-table-name", L, prefix="P" * plen), key="names|association-table-name|long-%d" % plen, validate=0, timeout=900, max_paths=200000, meta=dict(solver_finds_candidates_real_code_confirms=True)))
    return cs


def describe(tier):
    return dict(
        rule="(b) model specifications = bounded symbolic choice vectors: K <= 2 (quick) / 3 (thorough) classes named Alpha/Beta/Gamma, base in {none, earlier class}, "
        "per class up to two fields with kinds from {int,str,float,bool,Optional[int],Enum,Optional[Enum],datetime,List[int],List[str],_private, reference, Optional "
        "reference, List/Set of a mapped class} with every reference target (incl. self and mutual references, two collections of one target), classes handed to "
        "ORMatic in every order; per specification the real pipeline runs end to end and the mapper is compared with an independent reading of the dataclasses; "
        "generating twice must give identical text, also in fresh interpreters with different string-hash seeds (PYTHONHASHSEED as a nondeterministic part of the environment, 4 seeds). (a) the generator's own name computation (the assignments of create_one_to_many_relationship that the association-table name and its two column names depend on, "
        "with their if-branches, slices, concatenations, .lower(), len() and module constants) is interpreted from wrapped_table.py's current AST on identifiers of bounded symbolic characters, also with class names that start with a concrete prefix of 40 / 56 characters; "
        "the solver looks for colliding association-table / column names and every hit is confirmed on the real generator. non-trivial = every path generates a module",
        bounds=dict(classes="<= 2 quick / <= 3 thorough", fields_per_class="<= 2", identifier_length="<= 3 quick / <= 4 thorough over the alphabet {A,B,D,O,a,b,d,o,_} (contains the letters of the 'dao_' delimiter)"),
        outside=["models outside the documented rules (other unions, nested or optional collections)", "alternative mappings and custom types (exercised in C04/C05)", "identifiers longer than the bound"],
        assumptions=["class names are fixed (Alpha, Beta, Gamma) in part (b); names vary only in part (a)", "black (the formatter the generator calls) is deterministic"],
    )
