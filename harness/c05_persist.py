"""C05 -- persisting to SQL and reloading in a fresh session restores the object graph (bounded exploration: SQLAlchemy's unit
of work and sqlite run concretely on every path; the solver makes the exploration of graph shapes exhaustive)."""
from __future__ import annotations

import dataclasses
from datetime import datetime

from vlib.core import Case
from vlib.symx import AND, EQ

from . import ormmodel as M
from . import ormgen
from .c04_dao_roundtrip import isomorphic, pick, LEAF_SEQS

PROPERTY = "C05"
LEVEL = "exploration"


def reachable(root):
    seen, order = {}, []

    def walk(o):
        if o is None or id(o) in seen or not dataclasses.is_dataclass(o):
            return
        seen[id(o)] = o
        order.append(o)
        for f in dataclasses.fields(o):
            v = getattr(o, f.name)
            if isinstance(v, list):
                for e in v:
                    walk(e)
            else:
                walk(v)

    walk(root)
    return order


def expected_rows(objs, dao):
    """table name -> number of rows: one row per distinct object in the table of its class and of every mapped base class"""
    from krrood.ormatic.dao import get_dao_class

    counts = {}
    for o in objs:
        d = get_dao_class(type(o))
        for k in d.__mro__:
            t = getattr(k, "__tablename__", None)
            if t and "__tablename__" in vars(k):
                counts[t] = counts.get(t, 0) + 1
    return counts


def persist_and_reload(root, load_cls_of, marker="auto"):
    """returns (restored root, actual row counts, expected row counts)"""
    from sqlalchemy import func, select
    from sqlalchemy.orm import Session

    from krrood.ormatic.dao import to_dao
    from krrood.ormatic.utils import create_engine

    dao = ormgen.harness_dao()
    engine = _engine(dao)
    # "fresh database": the per-process in-memory database is emptied (creating the schema anew on every path costs 0.2 s)
    with engine.begin() as c:
        for t in reversed(dao.Base.metadata.sorted_tables):
            c.execute(t.delete())
    with Session(engine) as s:
        s.add(to_dao(root))
        s.commit()
    with Session(engine) as s2:  # a fresh session: nothing comes from the identity map of the inserting one
        load_cls = load_cls_of(dao)
        if marker == "auto":
            marker = "tag" if isinstance(root, M.Node) else "number"
        rows = [r for r in s2.scalars(select(load_cls)).all() if marker is None or getattr(r, marker) == getattr(root, marker)]
        if len(rows) != 1:
            return None, "expected exactly one row for the root, got %d" % len(rows), None
        back = rows[0].from_dao()
        actual = {}
        for name, table in dao.Base.metadata.tables.items():
            if name.endswith("_association"):
                continue
            actual[name] = s2.scalar(select(func.count()).select_from(table))
    return back, actual, expected_rows(reachable(root), dao)


_ENGINE = {}


def _engine(dao):
    import os

    from sqlalchemy.pool import StaticPool

    from krrood.ormatic.utils import create_engine

    if _ENGINE.get("pid") != os.getpid():
        e = create_engine("sqlite://", poolclass=StaticPool, connect_args={"check_same_thread": False})
        dao.Base.metadata.create_all(e)
        _ENGINE.update(pid=os.getpid(), engine=e)
    return _ENGINE["engine"]


def graph_case(n_nodes, with_vecs, fixed, nseq):
    def h(ctx):
        ormgen.harness_dao()
        # the two shared targets either differ in their values or are value-equal but distinct objects
        same = ctx.choice("targets_value_equal", 2)
        if with_vecs:
            pool = [M.Vec(0 if same else 100 * j) for j in range(2)]
        else:
            kinds = [pick(ctx, "leafclass%d" % j, 4, fixed) for j in range(2)]
            pool = []
            for j, k in enumerate(kinds):
                v = 0 if same else 100 * j  # includes 0
                pool.append(M.Leaf(v) if k == 0 else M.SubLeaf(v, 0) if k == 1 else M.SubSubLeaf(v, 0, 0) if k == 2 else M.DeepLeaf(v, 0, d=0))
        nodes = []
        for i in range(n_nodes):
            tag = i  # distinct tags identify rows; 0 is included
            nodes.append(M.SubNode(tag, extra=0) if pick(ctx, "sub%d" % i, 2, fixed) else M.Node(tag))
        shape = []
        for i, nd in enumerate(nodes):
            p = pick(ctx, "parent%d" % i, n_nodes + 1, fixed) - 1
            nd.parent = nodes[p] if p >= 0 else None
            s = pick(ctx, "single%d" % i, 3, fixed) - 1
            q = pick(ctx, "seq%d" % i, nseq, fixed)
            seq = [pool[j] for j in LEAF_SEQS[q]]
            if with_vecs:
                nd.vec, nd.vecs = (pool[s] if s >= 0 else None), seq
            else:
                nd.leaf, nd.leaves = (pool[s] if s >= 0 else None), seq
            shape.append((type(nd).__name__, p, s, LEAF_SEQS[q]))
        root = nodes[0]
        # load through the root's own DAO class or any DAO base class of it
        chain = ["NodeDAO", "SubNodeDAO"] if isinstance(root, M.SubNode) else ["NodeDAO"]
        load = chain[pick(ctx, "load_via", len(chain), fixed)]
        back, actual, expected = persist_and_reload(root, lambda dao: getattr(dao, load))
        ctx.observe(shape, load)
        ctx.note("nonempty", 1)
        if back is None:
            ctx.observe(actual)
            return {"root-row-found": False}
        r, terms = isomorphic(root, back, collections_as_sets=True)
        v = {"restored-graph-isomorphic": r is True}
        if r is not True:
            ctx.observe(str(r))
        else:
            v["restored-values-equal"] = AND(terms) if terms else True
        # alternatively mapped objects are stored through their mapping's table
        v["one-row-per-object"] = all(actual.get(t, 0) == c for t, c in expected.items()) and all(c == expected.get(t, 0) for t, c in actual.items())
        if not v["one-row-per-object"]:
            ctx.observe(actual, expected)
        return v

    return h


def rich_case(full):
    def h(ctx):
        colors = list(M.Color)
        if full:
            # (every combination of the fields, except that the two text-like collections vary together: 15 552 combinations)
            memo = {}

            def pick_(name, n):
                name = "names" if name == "numbers" else name
                if name not in memo:
                    memo[name] = ctx.choice(name, n)
                return memo[name]

        else:
            # quick: 8 profiles that together take every value of every field at least once
            prof = ctx.choice("profile", 8)
            table = {
                "has_owner": [0, 1, 0, 1, 0, 1, 0, 1], "number": [0, 1, 2, 1, 0, 2, 1, 0], "has_opt": [0, 1, 1, 0, 1, 0, 1, 1], "opt": [0, 0, 1, 0, 1, 0, 0, 1],
                "color": [0, 1, 2, 0, 1, 2, 0, 1], "has_opt_color": [0, 1, 1, 1, 0, 1, 0, 1], "opt_color": [0, 0, 1, 2, 0, 1, 2, 0], "when": [0, 1, 0, 1, 1, 0, 0, 1],
                "names": [0, 1, 0, 1, 0, 1, 0, 0], "numbers": [0, 1, 1, 0, 0, 1, 0, 1], "flag": [0, 1, 0, 1, 1, 0, 1, 0], "ratio": [0, 1, 2, 0, 1, 2, 1, 0], "text": [0, 1, 2, 2, 1, 0, 0, 1],
            }
            pick_ = lambda name, n: table[name][prof]
        owner = M.Node(3) if pick_("has_owner", 2) else None
        o = M.Rich(
            number=pick_("number", 3) - 1,
            opt=(pick_("opt", 2)) if pick_("has_opt", 2) else None,
            color=colors[pick_("color", 3)],
            opt_color=(colors[pick_("opt_color", 3)] if pick_("has_opt_color", 2) else None),
            when=[datetime(2021, 5, 17, 12, 30, 1, 999), datetime(1970, 1, 1)][pick_("when", 2)],
            names=[["a", "", "ünï", "a"], []][pick_("names", 2)],
            numbers=[[0, -1, 2**40], []][pick_("numbers", 2)],
            flag=bool(pick_("flag", 2)),
            ratio=[0.0, -1.5, 1e308][pick_("ratio", 3)],
            text=["", "x y", "ß"][pick_("text", 3)],
            owner=owner,
        )
        back, actual, expected = persist_and_reload(o, lambda dao: dao.RichDAO)
        ctx.note("nonempty", 1)
        if back is None:
            ctx.observe(actual)
            return {"root-row-found": False}
        r, terms = isomorphic(o, back, collections_as_sets=True)
        if r is not True:
            ctx.observe(str(r))
        return {"restored-graph-isomorphic": r is True, "one-row-per-object": all(actual.get(t, 0) == c for t, c in expected.items())}

    return h


def drawing_case():
    """an alternatively mapped subclass (Circle) of a normally mapped class (Shape) stored through fields typed with the base class"""

    def h(ctx):
        pool = [M.Shape(3), M.Circle(0, 5), M.Circle(0, 0)]
        mi = ctx.choice("main", 4) - 1
        seq = [[], [1], [0, 1], [1, 2, 1], [2, 0]][ctx.choice("shapes", 5)]
        root = M.Drawing(7, pool[mi] if mi >= 0 else None, [pool[j] for j in seq])
        back, actual, expected = persist_and_reload(root, lambda dao: dao.DrawingDAO)
        ctx.observe(mi, seq)
        ctx.note("nonempty", 1)
        if back is None:
            ctx.observe(actual)
            return {"root-row-found": False}
        r, terms = isomorphic(root, back, collections_as_sets=True)
        if r is not True:
            ctx.observe(str(r))
        v = {"restored-graph-isomorphic": r is True}
        if r is True:
            v["restored-values-equal"] = AND(terms) if terms else True
        # a circle is stored through its mapping: one CircleMapped row (and one row in the table of its base) per distinct circle
        used = {id(o): o for o in ([root.main] if root.main is not None else []) + root.shapes}
        n_circles = sum(1 for o in used.values() if isinstance(o, M.Circle))
        v["one-row-per-object"] = actual.get("CircleMappedDAO", 0) == n_circles and actual.get("ShapeDAO", 0) == len(used)
        if not v["one-row-per-object"]:
            ctx.observe(actual)
        return v

    return h


def bag_case():
    """an alternatively mapped container / its normally mapped subclasses inside a holder that also refers to the elements"""

    def h(ctx):
        backref = ctx.flag("backref")
        pool = [(M.BackLeaf if backref else M.Leaf)(1), M.SubLeaf(2, 3)]
        items = [pool[j] for j in [[0], [0, 1], [1, 0]][ctx.choice("items", 3)]]
        kind = ctx.choice("bagclass", 3)
        if kind:
            sp = ctx.choice("spare", 3) - 1
            kw = dict(label=4, spare=pool[sp] if sp >= 0 else None, more=[pool[j] for j in [[], [0], [1, 0]][ctx.choice("more", 3)]])
            bag = M.LabeledBag(items, **kw) if kind == 1 else M.SealedBag(items, seal=5, **kw)
        else:
            bag = M.Bag(items)
        if backref:
            pool[0].home = bag
        fav = ctx.choice("favourite", 3) - 1
        root = M.Holder(bag, pool[fav] if fav >= 0 else None, [pool[j] for j in [[], [1], [0, 1]][ctx.choice("others", 3)]])
        back, actual, expected = persist_and_reload(root, lambda dao: dao.HolderDAO, marker=None)
        ctx.observe(type(bag).__name__, backref, fav)
        ctx.note("nonempty", 1)
        if back is None:
            ctx.observe(actual)
            return {"root-row-found": False}
        r, terms = isomorphic(root, back, collections_as_sets=True)
        if r is not True:
            ctx.observe(str(r))
        used = reachable(root)
        n_leaves = sum(1 for o in used if isinstance(o, M.Leaf))
        v = {"restored-graph-isomorphic": r is True}
        # one row per distinct object: the leaves (in the table of their base class) and the one container
        v["one-row-per-object"] = actual.get("LeafDAO", 0) == n_leaves and actual.get("BagMappedDAO", 0) == 1 and actual.get("HolderDAO", 0) == 1
        if not v["one-row-per-object"]:
            ctx.observe(actual)
        return v

    return h


def car_case():
    """two rows that refer to each other through one-to-one references that are not annotated Optional"""

    def h(ctx):
        c, e = M.Car(7), M.Engine(8)
        if ctx.flag("car-has-engine"):
            c.engine = e
        if ctx.flag("engine-has-car"):
            e.car = c
        try:
            back, actual, expected = persist_and_reload(c, lambda dao: dao.CarDAO, marker="plate")
        except Exception as ex:
            ctx.observe("persisting raised %s: %s" % (type(ex).__name__, str(ex)[:120]))
            return {"persisting-does-not-raise": False}
        ctx.note("nonempty", 1)
        if back is None:
            return {"root-row-found": False}
        r, terms = isomorphic(c, back, collections_as_sets=True)
        return {"restored-graph-isomorphic": r is True, "persisting-does-not-raise": True}

    return h


def album_case(max_strips):
    """objects whose alternative mapping builds mapped helper objects on the fly (nothing else holds them)"""

    def h(ctx):
        k = range(max_strips + 1)[ctx.choice("strips", max_strips + 1)]
        strips = []
        c = 0
        for i in range(k):
            n = range(3)[ctx.choice("len%d" % i, 3)]  # a concrete number
            strips.append(M.Strip([10 * (c + j) for j in range(n)]))  # all values distinct; 0 included
            c += n
        root = M.Album(7, strips)
        back, actual, expected = persist_and_reload(root, lambda dao: dao.AlbumDAO)
        ctx.observe([s.values for s in strips])
        ctx.note("nonempty", 1)
        if back is None:
            ctx.observe(actual)
            return {"root-row-found": False}
        v = {"restored-graph-isomorphic": [s.values for s in back.strips] == [s.values for s in strips] and back.number == 7}
        if not v["restored-graph-isomorphic"]:
            ctx.observe([s.values for s in back.strips])
        # the helper objects are rows of their own: one Leaf row per value
        v["one-row-per-object"] = actual.get("LeafDAO", 0) == c and actual.get("AlbumDAO", 0) == 1
        if not v["one-row-per-object"]:
            ctx.observe(actual)
        return v

    return h


def streaming_case(max_n):
    """several short-lived objects converted one after the other with ONE conversion state, then persisted together"""

    def h(ctx):
        from sqlalchemy import select
        from sqlalchemy.orm import Session

        from krrood.ormatic.dao import ToDAOState, to_dao

        dao = ormgen.harness_dao()
        engine = _engine(dao)
        with engine.begin() as c:
            for t in reversed(dao.Base.metadata.sorted_tables):
                c.execute(t.delete())
        n = 1 + range(max_n)[ctx.choice("n", max_n)]
        kinds = [ctx.choice("kind%d" % i, 3) for i in range(n)]
        st = ToDAOState()
        daos = []
        for i, kd in enumerate(kinds):
            # the object is a temporary: after to_dao returns only the conversion state can keep it alive
            daos.append(to_dao(M.Node(i, leaf=[None, M.Leaf(100 + i), M.SubLeaf(100 + i, i)][kd]), st))
        with Session(engine) as s:
            s.add_all(daos)
            s.commit()
        with Session(engine) as s2:
            rows = sorted(s2.scalars(select(dao.NodeDAO)).all(), key=lambda r: r.tag)
            got = []
            for r in rows:
                o = r.from_dao()
                got.append((o.tag, None if o.leaf is None else (type(o.leaf).__name__, o.leaf.v)))
        exp = [(i, None if kd == 0 else (["", "Leaf", "SubLeaf"][kd], 100 + i)) for i, kd in enumerate(kinds)]
        ctx.observe(kinds, got)
        ctx.note("nonempty", 1)
        return {"every-object-is-restored-with-its-own-values": got == exp, "distinct-objects-distinct-daos": len({id(d) for d in daos}) == n}

    return h


def cases(tier, seed):
    ormgen.harness_dao()
    cs = []
    # quick: 2 nodes; the second target is a SubSubLeaf / DeepLeaf, a SubNode root is loaded through its base DAO when it has a
    # parent and through its own DAO otherwise. thorough: 2 nodes with the class of the first target and the load class free and
    # 5 collection shapes ("wide"), and 3 nodes under the quick tier's rotation with the 2 shortest collection shapes ("deep");
    # 3 nodes with everything free ran into every budget (measured)
    plans = [(2, 4, "all")] if tier == "quick" else [(2, 5, "second"), (3, 2, "all")]
    for n, nseq, rotate in plans:
        for with_vecs in (False, True):
            for sub0 in (0, 1):
                for parent0, single0 in [(a, b) for a in range(n + 1) for b in range(3)]:
                    fixed = {"sub0": sub0, "parent0": parent0, "single0": single0}
                    if rotate == "all":
                        fixed.update(leafclass0=(parent0 + single0) % 3, leafclass1=2 + (parent0 + sub0) % 2, load_via=(0 if parent0 > 0 else sub0))
                    else:
                        fixed.update(leafclass1=2 + (parent0 + sub0) % 2)
                    nm = "persist graph|%s|node0=%s,parent0=%d,ref0=%d" % ("alt-mapped Vec targets" if with_vecs else "Leaf/SubLeaf/SubSubLeaf targets", ["Node", "SubNode"][sub0], parent0 - 1, single0 - 1)
                    if tier != "quick":
                        nm += "|deep" if n == 3 else "|wide"
                    cs.append(Case(nm + "|n=%d" % n, graph_case(n, with_vecs, fixed, nseq), key=nm, validate=0, timeout=900 if tier == "quick" else 3000, max_paths=300000))
    cs.append(Case("persist rich scalars", rich_case(tier != "quick"), validate=0, timeout=900 if tier == "quick" else 3000, max_paths=40000))
    cs.append(Case("persist an alternatively mapped subclass behind base-typed fields", drawing_case(), key="drawing", validate=0, timeout=900))
    cs.append(Case("persist an alternatively mapped container and its subclasses inside a holder", bag_case(), key="bag", validate=0, timeout=900))
    cs.append(Case("persist mutual one-to-one references that are not annotated Optional", car_case(), key="car", validate=0, timeout=900))
    cs.append(Case("persist helper objects built by an alternative mapping", album_case(2 if tier == "quick" else 3), key="album", validate=0, timeout=900))
    cs.append(Case("persist short-lived objects converted with one state", streaming_case(3 if tier == "quick" else 4), key="streaming", validate=0, timeout=900))
    return cs


def describe(tier):
    n = 2 if tier == "quick" else 3
    return dict(
        rule="the C04 graph shapes (bounded symbolic choices, explored exhaustively) with scalar values from small ranges; every path creates a fresh in-memory sqlite "
        "database with krrood's create_engine, adds to_dao(root), commits, opens a NEW session, loads through the root's own DAO class or a DAO base class (a symbolic "
        "choice), calls from_dao and compares: graph isomorphism incl. classes (polymorphic loading), sharing, order of collections, None positions, equal values, and "
        "row count per table == number of distinct objects of that class. Plus: an alternatively mapped subclass of a normally mapped class stored through fields typed with the base class; objects whose alternative mapping builds mapped helper objects on the fly, and several short-lived objects converted one after the other with one conversion state (object ids of dead temporaries are reused by CPython). Distinct = distinct shape vectors; non-trivial = every path persists at least one object",
        bounds=dict(nodes=n if tier == "quick" else "2 with the first target's class and the load class free and 5 collection shapes; 3 with the quick tier's rotation and the 2 shortest collection shapes", pool=2, scalar_values="2-3 values per field (incl. 0, '', False, empty list)", backend="sqlite in memory"),
        outside=["other database back ends", "symbolic reasoning about SQLAlchemy's unit of work or sqlite (executed, not encoded)", "graphs of more than %d nodes" % n],
        assumptions=["rows are identified by distinct tag values", "the solver's role here is exhaustive, constraint-pruned enumeration of a finite shape space"],
        explanation="bounded exhaustive exploration driven by the symx engine; all symbolic variables are finite choices",
    )
