"""C16 -- every way of writing a descriptor-managed field keeps the data and infers alike."""
from __future__ import annotations

from vlib.core import Case

from krrood.entity_query_language.symbol_graph import SymbolGraph

from . import sgworld as W
from .eqlworld import index_of

PROPERTY = "C16"
LEVEL = "model_checking"

INIT_LISTS = [[], [0], [0, 1], [1, 0, 1]]
INIT_SETS = [[], [0], [0, 1]]


def list_case(n_ops, first, twins=False):
    """h.member_of : List[Org] (MemberOf, inverse Member) written in every way; model = a plain list.
    twins: pool elements 0 and 2 are distinct objects that compare equal and hash alike"""

    def h(ctx):
        W.fresh_graph()
        pool = [W.TwinOrg(name=[0, 1, 0][i]) for i in range(3)] if twins else [W.Org(name=i) for i in range(3)]
        hum = W.Human(name=9)
        init = INIT_LISTS[ctx.choice("init", len(INIT_LISTS))]
        model = []
        trace = [("init", init)]
        v = {"no-exception": True}
        try:
            for i in init:  # initial contents are put there element by element
                hum.member_of.append(pool[i])
                model.append(pool[i])
            for s in range(n_ops):
                n = len(model)
                opts = [("assign", (0, 1)), ("assign", (1, 0, 1)), ("assign", ()), ("self-assign",), ("iadd", (2,)), ("iadd", (0, 0)), ("append", 2), ("append", 0),
                        ("extend", (1, 2)), ("extend", ()), ("extend", (0, 2)), ("assign", (0, 2)), ("iadd", (2, 0))] + [("insert", p, 2) for p in sorted({0, n, -1, -(n + 1), n + 1})] + [("setitem", p, 2) for p in sorted({0, n - 1}) if 0 <= p < n] + [("setslice", 0, 1, (2,), "iter"), ("setslice", 0, 0, (1, 2), "list"), ("setslice", 1, 5, (0,), "iter"), ("setslice", 0, 0, (0, 2), "list")] + ([("setstep", 2, (2, 1))] if len(model[::2]) == 2 else []) + [("assign-lazy", "reversed"), ("assign-lazy", "genexpr")]
                if s < len(first):
                    op = first[s]
                    if op not in opts:
                        ctx.assume(False)
                else:
                    op = opts[ctx.choice("w%d" % s, len(opts))]
                trace.append(op)
                k = op[0]
                if k == "assign":
                    hum.member_of = [pool[i] for i in op[1]]
                    model = [pool[i] for i in op[1]]
                elif k == "self-assign":
                    hum.member_of = hum.member_of
                elif k == "iadd":
                    hum.member_of += [pool[i] for i in op[1]]
                    model += [pool[i] for i in op[1]]
                elif k == "append":
                    hum.member_of.append(pool[op[1]])
                    model.append(pool[op[1]])
                elif k == "extend":
                    hum.member_of.extend([pool[i] for i in op[1]])
                    model.extend([pool[i] for i in op[1]])
                elif k == "insert":
                    hum.member_of.insert(op[1], pool[op[2]])
                    model.insert(op[1], pool[op[2]])
                elif k == "setitem":
                    hum.member_of[op[1]] = pool[op[2]]
                    model[op[1]] = pool[op[2]]
                elif k == "setstep":  # extended slice: every n-th position is replaced
                    vals = [pool[i] for i in op[2]]
                    hum.member_of[::op[1]] = list(vals)
                    model[::op[1]] = vals
                elif k == "assign-lazy":  # the assigned value is a lazy iterable that reads the field itself
                    if op[1] == "reversed":
                        new_model = list(reversed(model))
                        hum.member_of = reversed(hum.member_of)
                    else:
                        new_model = [x for x in model if x is not pool[1]]
                        hum.member_of = (x for x in hum.member_of if x is not pool[1])
                    model = new_model
                elif k == "setslice":  # slice assignment, from a list or from a one-shot iterator
                    vals = [pool[i] for i in op[3]]
                    hum.member_of[op[1]:op[2]] = iter(vals) if op[4] == "iter" else list(vals)
                    model[op[1]:op[2]] = vals
        except Exception as e:
            v["no-exception"] = False
            ctx.observe("raised %s: %s" % (type(e).__name__, str(e)[:100]), [list(map(str, t)) for t in trace])
            return v
        got = [index_of(pool, x) for x in hum.member_of]
        exp = [index_of(pool, x) for x in model]
        ctx.observe([list(map(str, t)) for t in trace], got, exp)
        ctx.note("nonempty", bool(exp))
        v["field-holds-what-python-semantics-dictate"] = got == exp
        # every element that is part of the field is related in the graph, with the inverse inferred
        g = SymbolGraph()
        rel = {(e.wrapped_field.name.lstrip("_"), index_of(pool + [hum], e.source.instance), index_of(pool + [hum], e.target.instance)) for e in g._instance_graph.edges()}
        ok = True
        for x in set(got):
            if x >= 0:
                ok = ok and ("member_of", 3, x) in rel and ("members", x, 3) in rel and any(y is hum for y in pool[x].members)
        v["every-element-of-the-field-is-related-and-inferred"] = ok
        return v

    return h


def transitive_case():
    """a transitive list field written in every way: the element brings consequences that are written back into the very
    field that is being written; all ways of writing must end with the same field and the same relations"""

    def h(ctx):
        W.fresh_graph()
        o0, o1, o2 = (W.Org(name=i) for i in range(3))
        o1.sub_org_of.append(o2)
        pre = ctx.choice("pre", 2)
        if pre:
            o0.sub_org_of.append(o2)  # the field may already hold the consequence
        how = ["assign", "iadd", "append", "extend", "insert"][ctx.choice("how", 5)]
        v = {"no-exception": True}
        try:
            if how == "assign":
                o0.sub_org_of = ([o2] if pre else []) + [o1]
            elif how == "iadd":
                o0.sub_org_of += [o1]
            elif how == "append":
                o0.sub_org_of.append(o1)
            elif how == "extend":
                o0.sub_org_of.extend([o1])
            else:
                o0.sub_org_of.insert(0, o1)
        except Exception as e:
            v["no-exception"] = False
            ctx.observe("raised %s" % type(e).__name__)
            return v
        got = sorted({index_of([o0, o1, o2], x) for x in o0.sub_org_of})
        rel = {(e.wrapped_field.name.lstrip("_"), index_of([o0, o1, o2], e.source.instance), index_of([o0, o1, o2], e.target.instance)) for e in SymbolGraph()._instance_graph.edges()}
        ctx.observe(how, pre, got)
        ctx.note("nonempty", 1)
        v["field-holds-the-element-and-its-consequences"] = got == [1, 2]
        v["every-element-of-the-field-is-related-and-inferred"] = ("sub_org_of", 0, 1) in rel and ("sub_org_of", 0, 2) in rel
        return v

    return h


def set_case(n_ops, first):
    """o.members : Set[Human] (Member, inverse MemberOf); model = a plain set"""

    def h(ctx):
        W.fresh_graph()
        pool = [W.Human(name=i) for i in range(3)]
        org = W.Org(name=9)
        init = INIT_SETS[ctx.choice("init", len(INIT_SETS))]
        model = set()
        trace = [("init", init)]
        v = {"no-exception": True}
        try:
            for i in init:
                org.members.add(pool[i])
                model.add(i)
            for s in range(n_ops):
                opts = [("assign", (0, 1)), ("assign", (2,)), ("assign", ()), ("self-assign",), ("ior", (2,)), ("ior", (0,)), ("add", 2), ("add", 0), ("update", (1, 2)), ("update", ())]
                if s < len(first):
                    op = first[s]
                else:
                    op = opts[ctx.choice("w%d" % s, len(opts))]
                trace.append(op)
                k = op[0]
                if k == "assign":
                    org.members = {pool[i] for i in op[1]}
                    model = set(op[1])
                elif k == "self-assign":
                    org.members = org.members
                elif k == "ior":
                    org.members |= {pool[i] for i in op[1]}
                    model |= set(op[1])
                elif k == "add":
                    org.members.add(pool[op[1]])
                    model.add(op[1])
                elif k == "update":
                    org.members.update({pool[i] for i in op[1]})
                    model |= set(op[1])
        except Exception as e:
            v["no-exception"] = False
            ctx.observe("raised %s: %s" % (type(e).__name__, str(e)[:100]), [list(map(str, t)) for t in trace])
            return v
        got = sorted(index_of(pool, x) for x in org.members)
        ctx.observe([list(map(str, t)) for t in trace], got, sorted(model))
        ctx.note("nonempty", bool(model))
        v["field-holds-what-python-semantics-dictate"] = got == sorted(model)
        g = SymbolGraph()
        rel = {(e.wrapped_field.name.lstrip("_"), index_of(pool + [org], e.source.instance), index_of(pool + [org], e.target.instance)) for e in g._instance_graph.edges()}
        ok = True
        for x in got:
            if x >= 0:
                ok = ok and ("members", 3, x) in rel and ("member_of", x, 3) in rel and any(y is org for y in pool[x].member_of)
        v["every-element-of-the-field-is-related-and-inferred"] = ok
        return v

    return h


LIST_FIRST = [("assign-lazy", "reversed"), ("assign-lazy", "genexpr"), ("setslice", 0, 1, (2,), "iter"), ("setslice", 0, 0, (1, 2), "list"), ("assign", (0, 1)), ("assign", (1, 0, 1)), ("assign", ()), ("self-assign",), ("iadd", (2,)), ("iadd", (0, 0)), ("append", 2), ("append", 0), ("extend", (1, 2)), ("extend", ()), ("insert", 0, 2), ("insert", -1, 2)]
SET_FIRST = [("assign", (0, 1)), ("assign", (2,)), ("assign", ()), ("self-assign",), ("ior", (2,)), ("ior", (0,)), ("add", 2), ("add", 0), ("update", (1, 2)), ("update", ())]


def cases(tier, seed):
    n = 2 if tier == "quick" else 3
    cs = []
    for f in LIST_FIRST:
        nm = "list field|first=%s" % ":".join(map(str, f))
        cs.append(Case(nm + "|ops=%d" % n, list_case(n, [f]), key=nm, reset=W.world_reset, validate=0, timeout=900, max_paths=400000, cex_grace=10**9))
    cs.append(Case("list field|first=setitem|ops=%d" % n, list_case(n, []), key="list field|any", reset=W.world_reset, validate=0, timeout=900, max_paths=400000, cex_grace=10**9))
    # elements that are equal but distinct objects: each of them is an element of the field of its own
    for f in [("extend", (0, 2)), ("assign", (0, 2)), ("iadd", (2, 0)), ("append", 2), ("insert", 0, 2), ("setslice", 0, 0, (0, 2), "list")]:
        nm = "list field with value-equal twins|first=%s" % ":".join(map(str, f))
        cs.append(Case(nm + "|ops=%d" % n, list_case(n, [f], twins=True), key=nm, reset=W.world_reset, validate=0, timeout=900, max_paths=400000, cex_grace=10**9))
    cs.append(Case("transitive list field written in every way", transitive_case(), key="transitive", reset=W.world_reset, validate=0, timeout=300))
    for f in SET_FIRST:
        nm = "set field|first=%s" % ":".join(map(str, f))
        cs.append(Case(nm + "|ops=%d" % n, set_case(n, [f]), key=nm, reset=W.world_reset, validate=0, timeout=900, max_paths=400000, cex_grace=10**9))
    return cs


def describe(tier):
    n = 2 if tier == "quick" else 3
    return dict(
        rule="initial contents (ordered list with repetitions / set over a pool of 3 elements, a bounded symbolic choice) followed by %d write operations chosen symbolically from "
        "{assign a new collection, x.f = x.f, += / |=, append, extend, insert (front / end / negative index), item assignment, slice assignment (from a list / a one-shot iterator, extended slices), assignment of a lazy iterable that reads the field itself (reversed(x.f), a generator expression over x.f), add, update} with operands from the pool, on a "
        "list-valued (Human.member_of; also with a pool in which two distinct elements compare equal and hash alike) and a set-valued (Org.members) managed field, and a transitive list field (the written element brings consequences that go into the same field); the field must equal the same operations applied to a plain list / set (order and "
        "multiplicity for lists) and every element of the field must be related in the symbol graph with its inverse inferred. non-trivial = non-empty final contents" % n,
        bounds=dict(operations=n, pool=3, initial_lengths="<= 3"),
        outside=["extend / update with the field itself as argument (does not terminate on the unchanged tree; reported in DESIGN.md, not run)", "remove / pop / clear / del (not named by the property)", "more than %d operations" % n],
        assumptions=["solver role: initial contents, operations and operands are finite symbolic choices explored exhaustively"],
    )
