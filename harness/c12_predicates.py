"""C12 -- predicates and symbolic functions agree between concrete and symbolic calls."""
from __future__ import annotations

import itertools
from dataclasses import dataclass, field, make_dataclass
from typing import Any

from vlib.core import Case
from vlib.symx import AND, OR, NOT, IMPLIES, IFF, EQ, SUM, B2I, is_sym

from krrood.entity_query_language.entity import entity, let, and_, set_of
from krrood.entity_query_language.quantify_entity import an
from krrood.entity_query_language.predicate import Predicate, symbolic_function, merge_args_and_kwargs
from krrood.entity_query_language.symbolic import SymbolicExpression

from .eqlworld import P, eql_reset, index_of

PROPERTY = "C12"
LEVEL = "model_checking"

LOG = []
COEF = (1, 2, 3)
DEFAULT = 7


def val(p):
    return p.a if isinstance(p, P) else p


def body(args):
    s = 0
    for c, p in zip(COEF, args):
        s = s + c * val(p)
    return s > 0


# ---- the callables under test: arity 1..3, optionally with a default on the last parameter ----
def _mk_function(arity, with_default):
    names = ["p%d" % i for i in range(arity)]
    sig = ", ".join(n + ("=%d" % DEFAULT if with_default and i == arity - 1 else "") for i, n in enumerate(names))
    src = "def fn(%s):\n    LOG.append((%s,))\n    return body((%s,))\n" % (sig, ", ".join(names), ", ".join(names))
    ns = dict(LOG=LOG, body=body)
    exec(src, ns)
    f = ns["fn"]
    f.__name__ = "fn%d%s" % (arity, "d" if with_default else "")
    return symbolic_function(f)


def _mk_predicate(arity, with_default):
    names = ["p%d" % i for i in range(arity)]
    flds = []
    for i, n in enumerate(names):
        if with_default and i == arity - 1:
            flds.append((n, Any, field(default=DEFAULT)))
        else:
            flds.append((n, Any))

    def __call__(self):
        args = tuple(getattr(self, n) for n in names)
        LOG.append(args)
        return body(args)

    cls = make_dataclass("Pred%d%s" % (arity, "d" if with_default else ""), flds, bases=(Predicate,), namespace={"__call__": __call__}, eq=False)
    return cls


FUNCS = {(a, d): _mk_function(a, d) for a in (1, 2, 3) for d in (False, True)}
PREDS = {(a, d): _mk_predicate(a, d) for a in (1, 2, 3) for d in (False, True)}


def shapes(max_arity):
    """(arity, with_default, kinds, n_positional, omit_last)"""
    for arity in range(1, max_arity + 1):
        for with_default in (False, True):
            for omit in ((False, True) if with_default else (False,)):
                n_given = arity - (1 if omit else 0)
                for kinds in itertools.product("XYCA", repeat=n_given):
                    if "Y" in kinds and "X" not in kinds:
                        continue  # symmetric to X
                    if "A" in kinds and (arity > 2 and not with_default):
                        continue  # attribute arguments: arity <= 2 (+ default variants)
                    for npos in range(n_given + 1):
                        yield arity, with_default, kinds, npos, omit


def harness(what, arity, with_default, kinds, npos, omit, N):
    target = (FUNCS if what == "fn" else PREDS)[(arity, with_default)]

    def h(ctx):
        del LOG[:]
        xs = [P(ctx.fresh_int("xa%d" % i), ctx.fresh_int("xb%d" % i)) for i in range(N)]
        ys = [P(ctx.fresh_int("ya%d" % i)) for i in range(N)]
        ks = [ctx.fresh_int("k%d" % j) for j in range(arity)]
        x = let(P, xs, name="x")
        y = let(P, ys, name="y")
        given = []
        for j, kd in enumerate(kinds):
            given.append(x if kd == "X" else y if kd == "Y" else x.b if kd == "A" else ks[j])
        args = given[:npos]
        kwargs = {"p%d" % j: given[j] for j in range(npos, len(given))}
        symbolic = any(kd in "XYA" for kd in kinds)
        r = target(*args, **kwargs)
        v = {}
        full = lambda bx, by: tuple((bx if kd == "X" else by if kd == "Y" else bx.b if kd == "A" else ks[j]) for j, kd in enumerate(kinds)) + ((DEFAULT,) if omit else ())
        if not symbolic:
            # concrete call: runs at once, plain result
            if what == "fn":
                v["concrete-runs-once"] = len(LOG) == 1
                v["concrete-result"] = IFF(r, body(full(None, None))) if not isinstance(r, SymbolicExpression) else False
            else:
                v["concrete-is-instance"] = isinstance(r, target) and not isinstance(r, SymbolicExpression)
                v["concrete-result"] = IFF(r(), body(full(None, None))) if isinstance(r, target) else False
            ctx.observe("concrete", len(LOG))
            ctx.note("nonempty", 1)
            return v
        v["symbolic-returns-condition"] = isinstance(r, SymbolicExpression)
        v["not-run-at-construction"] = len(LOG) == 0
        if not (v["symbolic-returns-condition"] and v["not-run-at-construction"]):
            return v
        use_y = "Y" in kinds
        q = an(set_of([x, y], r)) if use_y else an(entity(x, r))
        v["not-run-by-query-construction"] = len(LOG) == 0
        rows = []
        for res in q.evaluate():
            rows.append((index_of(xs, res[x]), index_of(ys, res[y])) if use_y else (index_of(xs, res), -1))
        ctx.observe(rows, len(LOG))
        ctx.note("nonempty", bool(rows))
        cands = [(i, j) for i in range(N) for j in (range(N) if use_y else [-1])]
        truth = {c: body(full(xs[c[0]], ys[c[1]] if c[1] >= 0 else None)) for c in cands}
        v["results-sound"] = AND([truth[r_] for r_ in rows if r_ in truth]) if rows else True
        v["results-known"] = all(r_ in truth for r_ in rows)
        v["results-complete"] = AND([IMPLIES(truth[c], c in rows) for c in cands])
        v["results-once"] = len(set(rows)) == len(rows)
        # call log: once per candidate binding, every parameter bound to the argument written in that position
        v["calls-once-per-binding"] = len(LOG) == len(cands)
        seen = []
        okargs = []
        attr_only = []
        for entry in LOG:
            if len(entry) != arity:
                okargs.append(False)
                continue
            bx = by = None
            good = True
            terms = []
            attr_entries = []
            for j in range(arity):
                kd = kinds[j] if j < len(kinds) else "D"
                e = entry[j]
                if kd == "X":
                    i = index_of(xs, e)
                    good = good and i >= 0 and (bx is None or bx == i)
                    bx = i
                elif kd == "Y":
                    i = index_of(ys, e)
                    good = good and i >= 0 and (by is None or by == i)
                    by = i
                elif kd == "A":
                    attr_entries.append(e)
                elif kd == "C":
                    terms.append(EQ(e, ks[j]) if not isinstance(e, P) else False)
                else:
                    terms.append(EQ(e, DEFAULT) if not isinstance(e, P) else False)
            if attr_entries:
                if bx is not None and bx >= 0:
                    terms.extend(EQ(e, xs[bx].b) for e in attr_entries)  # the attribute value of the same x
                else:
                    # x itself is not an argument: matched below by value against some permutation of the candidates
                    attr_only.append(attr_entries)
                    bx = len(attr_only) - 1
            okargs.append(AND([good] + terms))
            seen.append((bx if bx is not None else -1, by if by is not None else -1))
        v["call-arguments"] = AND(okargs) if okargs else True
        if attr_only:
            if len(attr_only) != N:
                v["call-arguments"] = False
            else:
                perms = [AND([EQ(e, xs[pi[c]].b) for c, es in enumerate(attr_only) for e in es]) for pi in itertools.permutations(range(N))]
                v["call-arguments"] = AND(v["call-arguments"], OR(perms))
        v["calls-distinct-bindings"] = len(set(seen)) == len(seen)
        return v

    return h


def merge_case():
    """merge_args_and_kwargs directly: positional i -> i-th parameter name (after self when ignore_first)"""

    def h(ctx):
        def f(a, b, c=3):
            pass

        vals = [ctx.fresh_int("v%d" % i) for i in range(3)]
        npos = ctx.choice("npos", 4)
        nkw = ctx.choice("nkw", 4 - npos)
        args = tuple(vals[:npos])
        names = ["a", "b", "c"]
        kwargs = {names[j]: vals[j] for j in range(npos, npos + nkw)}
        got = merge_args_and_kwargs(f, args, kwargs, ignore_first=False)
        exp = {names[j]: vals[j] for j in range(npos + nkw)}
        ctx.observe(sorted(got.keys()))
        ctx.note("nonempty", bool(got))
        ok = set(got.keys()) == set(exp.keys())
        v = {"merge-names": ok}
        if ok:
            v["merge-values"] = AND([EQ(got[k], exp[k]) for k in exp]) if exp else True
        # with ignore_first the first parameter (self) is skipped
        got2 = merge_args_and_kwargs(f, args[:2], {}, ignore_first=True)
        exp2 = {n: a for n, a in zip(["b", "c"], args[:2])}
        v["merge-ignore-first"] = set(got2.keys()) == set(exp2.keys()) and all(got2[k] is exp2[k] for k in exp2)
        return v

    return h


def shape_name(what, arity, with_default, kinds, npos, omit):
    parts = []
    for j, kd in enumerate(kinds):
        parts.append(("" if j < npos else "p%d=" % j) + {"X": "x", "Y": "y", "C": "k", "A": "x.b"}[kd])
    return "%s%d%s(%s)%s" % (what, arity, "d" if with_default else "", ",".join(parts), "+default" if omit else "")


def cases(tier, seed):
    max_arity = 2 if tier == "quick" else 3
    N = 2
    cs = [Case("merge_args_and_kwargs", merge_case(), reset=eql_reset)]
    for what in ("fn", "pred"):
        for (arity, d, kinds, npos, omit) in shapes(max_arity):
            nm = shape_name(what, arity, d, kinds, npos, omit)
            cs.append(Case(nm, harness(what, arity, d, kinds, npos, omit, N), reset=eql_reset, timeout=120, meta=dict(N=N)))
    return cs


def describe(tier):
    max_arity = 2 if tier == "quick" else 3
    return dict(
        rule="every call shape: callable kind {symbolic_function, Predicate subclass} x arity 1..%d x {no default, default on last parameter given/omitted} "
        "x each argument a variable (x or y), an attribute of a variable (x.b) or a concrete symbolic integer x every positional/keyword split; non-trivial = >= 2 feasible paths and a non-empty result on some path" % max_arity,
        bounds=dict(arity="<= %d" % max_arity, objects_per_domain=2, argument_values="unbounded integers", variables="<= 2 (x, y)"),
        outside=["*args/**kwargs signatures, keyword-only parameters", "arity > %d" % max_arity, "domains of more than 2 objects"],
        assumptions=["body is a weighted sum of the parameters compared with 0 (distinct weights make every position observable)",
                     "call order is not asserted, only one call per candidate binding"],
    )
