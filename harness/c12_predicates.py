"""C12 -- predicates and symbolic functions agree between concrete and symbolic calls."""
from __future__ import annotations

import itertools
from dataclasses import dataclass, field, make_dataclass
from typing import Any

from vlib.core import Case
from vlib.symx import AND, OR, NOT, IMPLIES, IFF, EQ, SUM, B2I, is_sym

from krrood.entity_query_language.entity import entity, let, and_, set_of
from krrood.entity_query_language.quantify_entity import an
from krrood.entity_query_language.predicate import Predicate, symbolic_function, merge_args_and_kwargs
from krrood.entity_query_language.symbolic import SymbolicExpression

from .eqlworld import P, eql_reset, index_of

PROPERTY = "C12"
LEVEL = "model_checking"

LOG = []
COEF = (1, 2, 3)
DEFAULT = 7


def val(p):
    return p.a if isinstance(p, P) else p


def body(args):
    """args ordered by parameter name p0, p1, ...: distinct weights make every parameter observable"""
    s = 0
    for c, p in zip(COEF, args):
        s = s + c * val(p)
    return s > 0


@dataclass
class Target:
    what: str  # fn | pred | predkw | predinit | predexpensive
    call: Any
    arity: int
    with_default: bool
    order: tuple  # parameter index taken by positional slot j
    names: tuple = ()  # parameter names when they are not p0, p1, ...

    def pname(self, i):
        return self.names[i] if self.names else "p%d" % i

    @property
    def label(self):
        return "%s%d%s" % (self.what, self.arity, "d" if self.with_default else "")


# ---- the callables under test ---------------------------------------------------------------
def _mk_function(arity, with_default):
    names = ["p%d" % i for i in range(arity)]
    sig = ", ".join(n + ("=%d" % DEFAULT if with_default and i == arity - 1 else "") for i, n in enumerate(names))
    src = "def fn(%s):\n    LOG.append((%s,))\n    return body((%s,))\n" % (sig, ", ".join(names), ", ".join(names))
    ns = dict(LOG=LOG, body=body)
    exec(src, ns)
    f = ns["fn"]
    f.__name__ = "fn%d%s" % (arity, "d" if with_default else "")
    return Target("fn", symbolic_function(f), arity, with_default, tuple(range(arity)))


def _mk_predicate(arity, with_default):
    names = ["p%d" % i for i in range(arity)]
    flds = []
    for i, n in enumerate(names):
        if with_default and i == arity - 1:
            flds.append((n, Any, field(default=DEFAULT)))
        else:
            flds.append((n, Any))

    def __call__(self):
        args = tuple(getattr(self, n) for n in names)
        LOG.append(args)
        return body(args)

    cls = make_dataclass("Pred%d%s" % (arity, "d" if with_default else ""), flds, bases=(Predicate,), namespace={"__call__": __call__}, eq=False)
    return Target("pred", cls, arity, with_default, tuple(range(arity)))


@dataclass(eq=False)
class PredKw(Predicate):
    """a keyword-only field declared between two ordinary ones: __init__(self, p0, p1, *, flag=0)"""

    p0: Any
    flag: Any = field(default=0, kw_only=True)
    p1: Any = DEFAULT

    def __call__(self):
        LOG.append((self.p0, self.p1))
        return body((self.p0, self.p1))


class PredInit(Predicate):
    """hand-written constructor whose parameter order differs from the attribute order"""

    def __init__(self, p1, p0):
        self.p0 = p0
        self.p1 = p1

    def __call__(self):
        LOG.append((self.p0, self.p1))
        return body((self.p0, self.p1))


TARGETS = {}
for _a in (1, 2, 3):
    for _d in (False, True):
        TARGETS[("fn", _a, _d)] = _mk_function(_a, _d)
        TARGETS[("pred", _a, _d)] = _mk_predicate(_a, _d)
TARGETS[("predkw", 2, True)] = Target("predkw", PredKw, 2, True, (0, 1))
TARGETS[("predinit", 2, False)] = Target("predinit", PredInit, 2, False, (1, 0))


@dataclass(eq=False)
class PredExpensive(Predicate):
    """uses the class flag that Predicate declares for costly predicates; the contract stays the same"""

    is_expensive = True
    p0: Any
    p1: Any

    def __call__(self):
        LOG.append((self.p0, self.p1))
        return body((self.p0, self.p1))


def _fn_var_keyword(p0, **more):
    """the second parameter arrives through **more (key p1)"""
    p1 = more.get("p1", DEFAULT)
    LOG.append((p0, p1))
    return body((p0, p1))


TARGETS[("fnvarkw", 2, True)] = Target("fnvarkw", symbolic_function(_fn_var_keyword), 2, True, (0, 1))
@dataclass(eq=False)
class PredDerived(Predicate):
    """derives state from its arguments when it is constructed (the concrete call constructs it anew for every binding)"""

    p0: Any
    p1: Any
    derived: Any = field(init=False, default=None)

    def __post_init__(self):
        self.derived = (self.p0, self.p1)

    def __call__(self):
        LOG.append(self.derived)
        return body(self.derived)


def _fn_parameter_called_name(p0, name=DEFAULT):
    """a parameter that is literally called `name`"""
    LOG.append((p0, name))
    return body((p0, name))


TARGETS[("fnname", 2, True)] = Target("fnname", symbolic_function(_fn_parameter_called_name), 2, True, (0, 1), names=("p0", "name"))
TARGETS[("predderived", 2, False)] = Target("predderived", PredDerived, 2, False, (0, 1))
TARGETS[("predexpensive", 2, False)] = Target("predexpensive", PredExpensive, 2, False, (0, 1))


def shapes(t: Target):
    """(kinds per positional slot, n_positional, omit_last)"""
    for omit in ((False, True) if t.with_default else (False,)):
        n_given = t.arity - (1 if omit else 0)
        for kinds in itertools.product("XYCA", repeat=n_given):
            if t.what == "fnvarkw":
                # the parameter collected by **more can only be written as a keyword
                if "Y" in kinds and "X" not in kinds:
                    continue
                yield kinds, min(1, n_given), omit
                continue
            if "Y" in kinds and "X" not in kinds:
                continue  # symmetric to X
            if "A" in kinds and (t.arity > 2 and not t.with_default):
                continue  # attribute arguments: arity <= 2 (+ default variants)
            for npos in range(n_given + 1):
                yield kinds, npos, omit


def harness(t: Target, kinds, npos, omit, N):
    arity = t.arity
    # slot j (as written in the call) feeds parameter t.order[j]
    slot_of_param = {t.order[j]: j for j in range(len(kinds))}

    def h(ctx):
        del LOG[:]
        xs = [P(ctx.fresh_int("xa%d" % i), ctx.fresh_int("xb%d" % i)) for i in range(N)]
        ys = [P(ctx.fresh_int("ya%d" % i)) for i in range(N)]
        ks = [ctx.fresh_int("k%d" % j) for j in range(arity)]
        x = let(P, xs, name="x")
        y = let(P, ys, name="y")
        given = [x if kd == "X" else y if kd == "Y" else x.b if kd == "A" else ks[j] for j, kd in enumerate(kinds)]
        args = given[:npos]
        kwargs = {t.pname(t.order[j]): given[j] for j in range(npos, len(given))}
        symbolic = any(kd in "XYA" for kd in kinds)
        r = t.call(*args, **kwargs)
        v = {}

        def expected_args(bx, by):
            """parameter values p0..p{arity-1} for the binding x=bx, y=by"""
            out = []
            for i in range(arity):
                if i in slot_of_param:
                    j = slot_of_param[i]
                    kd = kinds[j]
                    out.append(bx if kd == "X" else by if kd == "Y" else bx.b if kd == "A" else ks[j])
                else:
                    out.append(DEFAULT)
            return tuple(out)

        if not symbolic:
            # concrete call: runs at once, plain result
            if t.what.startswith("fn"):
                v["concrete-runs-once"] = len(LOG) == 1
                v["concrete-result"] = IFF(r, body(expected_args(None, None))) if not isinstance(r, SymbolicExpression) else False
            else:
                v["concrete-is-instance"] = isinstance(r, t.call) and not isinstance(r, SymbolicExpression)
                v["concrete-result"] = IFF(r(), body(expected_args(None, None))) if isinstance(r, t.call) else False
            ctx.observe("concrete", len(LOG))
            ctx.note("nonempty", 1)
            return v
        v["symbolic-returns-condition"] = isinstance(r, SymbolicExpression)
        v["not-run-at-construction"] = len(LOG) == 0
        if not (v["symbolic-returns-condition"] and v["not-run-at-construction"]):
            return v
        use_y = "Y" in kinds
        q = an(set_of([x, y], r)) if use_y else an(entity(x, r))
        v["not-run-by-query-construction"] = len(LOG) == 0
        cands = [(i, j) for i in range(N) for j in (range(N) if use_y else [-1])]

        def run_and_check(tag):
            del LOG[:]
            rows = []
            for res in q.evaluate():
                rows.append((index_of(xs, res[x]), index_of(ys, res[y])) if use_y else (index_of(xs, res), -1))
            ctx.observe(tag, rows, len(LOG))
            ctx.note("nonempty", bool(rows))
            truth = {c: body(expected_args(xs[c[0]], ys[c[1]] if c[1] >= 0 else None)) for c in cands}
            v[tag + "results-sound"] = AND([truth[r_] for r_ in rows if r_ in truth]) if rows else True
            v[tag + "results-known"] = all(r_ in truth for r_ in rows)
            v[tag + "results-complete"] = AND([IMPLIES(truth[c], c in rows) for c in cands])
            v[tag + "results-once"] = len(set(rows)) == len(rows)
            # call log: once per candidate binding, every parameter bound to the argument written in that position
            v[tag + "calls-once-per-binding"] = len(LOG) == len(cands)
            seen, okargs, attr_only = [], [], []
            for entry in LOG:
                if len(entry) != arity:
                    okargs.append(False)
                    continue
                bx = by = None
                good = True
                terms, attr_entries = [], []
                for i in range(arity):
                    j = slot_of_param.get(i)
                    kd = kinds[j] if j is not None else "D"
                    e = entry[i]
                    if kd == "X":
                        ix = index_of(xs, e)
                        good = good and ix >= 0 and (bx is None or bx == ix)
                        bx = ix
                    elif kd == "Y":
                        iy = index_of(ys, e)
                        good = good and iy >= 0 and (by is None or by == iy)
                        by = iy
                    elif kd == "A":
                        attr_entries.append(e)
                    elif kd == "C":
                        terms.append(EQ(e, ks[j]) if not isinstance(e, P) else False)
                    else:
                        terms.append(EQ(e, DEFAULT) if not isinstance(e, P) else False)
                if attr_entries:
                    if bx is not None and bx >= 0:
                        terms.extend(EQ(e, xs[bx].b) for e in attr_entries)  # the attribute value of the same x
                    else:
                        # x itself is not an argument: matched below by value against some permutation of the candidates
                        attr_only.append(attr_entries)
                        bx = len(attr_only) - 1
                okargs.append(AND([good] + terms))
                seen.append((bx if bx is not None else -1, by if by is not None else -1))
            ca = AND(okargs) if okargs else True
            if attr_only:
                if len(attr_only) != N:
                    ca = False
                else:
                    perms = [AND([EQ(e, xs[pi[c]].b) for c, es in enumerate(attr_only) for e in es]) for pi in itertools.permutations(range(N))]
                    ca = AND(ca, OR(perms))
            v[tag + "call-arguments"] = ca
            v[tag + "calls-distinct-bindings"] = len(set(seen)) == len(seen)

        run_and_check("")
        # the data changes between two evaluations of the same query object: the condition is evaluated on the
        # current values again (nothing about earlier calls may be remembered)
        for o in xs + ys:
            o.a, o.b = o.b - 1, o.a + 1
        run_and_check("after-update:")
        return v

    return h


# ---- value-equal but distinct candidates -----------------------------------------------------
class H:
    """hashable, compares equal by key; the predicate looks at w, which is not part of equality"""

    def __init__(self, key, w):
        self.key = key
        self.w = w

    def __eq__(self, o):
        return isinstance(o, H) and self.key == o.key

    def __hash__(self):
        return hash(self.key)


@dataclass(eq=False)
class PredH(Predicate):
    h: Any
    k: Any

    def __call__(self):
        LOG.append((self.h, self.k))
        return self.h.w > self.k


def _fn_h(h, k):
    LOG.append((h, k))
    return h.w > k


FN_H = symbolic_function(_fn_h)


def value_equal_case(what, N):
    def hh(ctx):
        del LOG[:]
        hs = [H(ctx.fresh_int("key%d" % i, 0, 1), ctx.fresh_int("w%d" % i)) for i in range(N)]
        k = ctx.fresh_int("k", 0, 1)
        x = let(H, hs, name="x")
        r = PredH(x, k) if what == "pred" else FN_H(x, k)
        v = {"symbolic-returns-condition": isinstance(r, SymbolicExpression), "not-run-at-construction": len(LOG) == 0}
        if not all(v.values()):
            return v
        rows = [index_of(hs, res) for res in an(entity(x, r)).evaluate()]
        ctx.observe(rows, len(LOG))
        ctx.note("nonempty", bool(rows))
        truth = [o.w > k for o in hs]
        v["results-sound"] = AND([truth[i] for i in rows if i >= 0]) if rows else True
        v["results-complete"] = AND([IMPLIES(truth[i], i in rows) for i in range(N)])
        v["results-once"] = len(set(rows)) == len(rows)
        v["calls-once-per-binding"] = len(LOG) == N
        v["call-arguments"] = sorted(index_of(hs, e[0]) for e in LOG) == list(range(N)) and all(not isinstance(e[1], H) for e in LOG)
        if v["call-arguments"]:
            v["call-arguments"] = AND([EQ(e[1], k) for e in LOG])
        return v

    return hh


def merge_case():
    """merge_args_and_kwargs directly: positional i -> i-th parameter name (after self when ignore_first)"""

    def h(ctx):
        def f(a, b, c=3):
            pass

        vals = [ctx.fresh_int("v%d" % i) for i in range(3)]
        npos = ctx.choice("npos", 4)
        nkw = ctx.choice("nkw", 4 - npos)
        args = tuple(vals[:npos])
        names = ["a", "b", "c"]
        kwargs = {names[j]: vals[j] for j in range(npos, npos + nkw)}
        got = merge_args_and_kwargs(f, args, kwargs, ignore_first=False)
        exp = {names[j]: vals[j] for j in range(npos + nkw)}
        ctx.observe(sorted(got.keys()))
        ctx.note("nonempty", bool(got))
        ok = set(got.keys()) == set(exp.keys())
        v = {"merge-names": ok}
        if ok:
            v["merge-values"] = AND([EQ(got[k], exp[k]) for k in exp]) if exp else True
        # with ignore_first the first parameter (self) is skipped
        got2 = merge_args_and_kwargs(f, args[:2], {}, ignore_first=True)
        exp2 = {n: a for n, a in zip(["b", "c"], args[:2])}
        v["merge-ignore-first"] = set(got2.keys()) == set(exp2.keys()) and all(got2[k] is exp2[k] for k in exp2)
        return v

    return h


def shape_name(t: Target, kinds, npos, omit):
    parts = []
    for j, kd in enumerate(kinds):
        parts.append(("" if j < npos else "%s=" % t.pname(t.order[j])) + {"X": "x", "Y": "y", "C": "k", "A": "x.b"}[kd])
    return "%s(%s)%s" % (t.label, ",".join(parts), "+default" if omit else "")


def cases(tier, seed):
    max_arity = 2 if tier == "quick" else 3
    N = 2 if tier == "quick" else 3
    cs = [Case("merge_args_and_kwargs", merge_case(), reset=eql_reset)]
    for what in ("pred", "fn"):
        cs.append(Case("%s(value-equal candidates)" % what, value_equal_case(what, 3), reset=eql_reset, timeout=300))
    for key, t in TARGETS.items():
        if t.arity > max_arity:
            continue
        for kinds, npos, omit in shapes(t):
            cs.append(Case(shape_name(t, kinds, npos, omit), harness(t, kinds, npos, omit, N), reset=eql_reset, timeout=120, meta=dict(N=N)))
    return cs


def describe(tier):
    max_arity = 2 if tier == "quick" else 3
    return dict(
        rule="every call shape: callable kind {symbolic_function, dataclass Predicate, Predicate with a keyword-only field between ordinary ones, "
        "Predicate with a hand-written __init__ in another order, Predicate with the class flag is_expensive set} x arity 1..%d x {no default, default on last parameter given/omitted} "
        "x each argument a variable (x or y), an attribute of a variable (x.b) or a concrete symbolic integer x every positional/keyword split; "
        "each shape is evaluated, its data is updated, and it is evaluated again; plus value-equal-but-distinct hashable candidates; "
        "non-trivial = >= 2 feasible paths and a non-empty result on some path" % max_arity,
        bounds=dict(arity="<= %d" % max_arity, objects_per_domain="2 quick / 3 thorough (3 in the value-equal case)", argument_values="unbounded integers", variables="<= 2 (x, y)"),
        outside=["*args/**kwargs signatures", "arity > %d" % max_arity, "domains of more than 3 objects"],
        assumptions=["body is a weighted sum of the parameters compared with 0 (distinct weights make every position observable)",
                     "call order is not asserted, only one call per candidate binding"],
    )
