"""Harness-owned world for the EQL properties: plain dataclasses with symbolic scalar fields."""
from __future__ import annotations

from dataclasses import dataclass, field
from typing import Any, List

import rustworkx as rx

from krrood.entity_query_language import symbolic as S
from krrood.entity_query_language.rxnode import RWXNode


@dataclass(eq=False)
class Q:
    v: Any = 0


@dataclass(eq=False)
class P:
    a: Any = 0
    b: Any = 0
    kid: Any = None
    kids: List[Any] = field(default_factory=list)
    vals: List[Any] = field(default_factory=list)
    s: Any = frozenset()  # a value of a partially ordered type (sets under inclusion)
    t: Any = ()  # a sequence value (ordered lexicographically)

    def m(self):
        return self.a + self.b


@dataclass(eq=False)
class P2(P):
    pass


@dataclass
class VQ:  # value-equal variant (dataclass default __eq__)
    v: Any = 0
    __hash__ = None


@dataclass
class VP:
    a: Any = 0
    b: Any = 0
    kids: List[Any] = field(default_factory=list)
    __hash__ = None


def eql_reset():
    """emulate a fresh process for krrood's process-wide expression tables (they only grow)"""
    S.SymbolicExpression._id_expression_map_.clear()
    S.SymbolicExpression._symbolic_expression_stack_.clear()
    RWXNode._graph = rx.PyDAG()
    for cls in (S.SymbolicExpression, S.ResultQuantifier, S.QueryObjectDescriptor, S.BinaryOperator, S.OR):
        cls._projection_.cache_clear()
    S.QueryObjectDescriptor.variable_is_bound_or_its_children_are_bound.cache_clear()
    try:
        from krrood.entity_query_language.conclusion_selector import ExceptIf

        ExceptIf._projection_.cache_clear()
    except Exception:
        pass


def index_of(objs, o):
    """identity index (value-eq dataclasses with equal symbolic fields compare equal)"""
    for i, x in enumerate(objs):
        if x is o:
            return i
    return -1
