"""Query-shape grammar, EQL builder and first-order oracle shared by C01 / C02 / C10.

A shape is a nested tuple:
  cond ::= ("cmp", op, term, term) | ("in", term, (lit, lit)) | ("has", var, kvar) | ("isa", var)
         | ("pred", var, lit) | ("the", var, lit)
         | ("and", c, c) | ("or", c, c) | ("not", c) | ("exists", var, c) | ("forall", var, c)
  term ::= ("a", var) | ("b", var) | ("kidv", var) | ("val0", var) | ("m", var) | ("lit", i) | ("flat", var)
  var  ::= "x" | "y" | "z" | "w"          (w ranges over the Q pool; ("flat", v) is flatten(v.kids) used as a variable)
"""
from __future__ import annotations

import itertools
import operator
from dataclasses import dataclass, field
from typing import Any, Dict, List

from vlib.symx import AND, OR, NOT, IMPLIES, IFF, EQ, SUM, B2I, is_sym

from krrood.entity_query_language.entity import entity, let, and_, or_, not_, set_of, in_, contains, exists, for_all, flatten
from krrood.entity_query_language.quantify_entity import an, the
from krrood.entity_query_language.predicate import Predicate, HasType, symbolic_function
from krrood.entity_query_language import symbolic as S

from .eqlworld import P, P2, Q, VP, VQ, index_of

SETS = [frozenset(), frozenset({1}), frozenset({2}), frozenset({1, 2})]  # partially ordered by inclusion: {1} and {2} are incomparable
TUPLES = [(1, 2), (1, 3), (2,), (1, 2, 3)]  # lexicographic order and set inclusion disagree on these
OPS = {"==": operator.eq, "!=": operator.ne, "<": operator.lt, "<=": operator.le, ">": operator.gt, ">=": operator.ge}
PVARS = ("x", "y", "z")


@dataclass(eq=False)
class GtPred(Predicate):
    """harness predicate: obj.a > bound"""

    obj: Any
    bound: Any

    def __call__(self):
        return self.obj.a > self.bound


@dataclass(eq=False)
class GtPred2(Predicate):
    """harness predicate over two variables: left.a > right.a"""

    left: Any
    right: Any

    def __call__(self):
        return self.left.a > self.right.a


@dataclass(eq=False)
class GtVals(Predicate):
    """harness predicate over two values (given as two expressions over the same variable): left > right"""

    left: Any
    right: Any

    def __call__(self):
        return self.left > self.right


@symbolic_function
def minus_fn(obj):
    """harness symbolic function whose result is a plain value (0 is a value like any other): obj.a - obj.b"""
    return obj.a - obj.b


# ---------------------------------------------------------------------------------------------
# shape utilities
# ---------------------------------------------------------------------------------------------
def shape_vars(c, bound=()):
    """free P-variables of a condition (in order of first occurrence), and whether w / features are used"""
    out = []

    def term(t):
        if t[0] in ("a", "b", "kidv", "val0", "m", "flatv", "s", "sa", "t", "fnv") and t[1] not in out and t[1] not in bound_stack:
            out.append(t[1])

    bound_stack = list(bound)

    def walk(c):
        k = c[0]
        if k == "cmp":
            term(c[2]); term(c[3])
        elif k in ("in", "truthy"):
            term(c[1])
        elif k in ("has", "pred2"):
            if c[1] not in out and c[1] not in bound_stack:
                out.append(c[1])
            if c[2] not in out and c[2] not in bound_stack:
                out.append(c[2])
        elif k in ("isa", "pred", "the", "predab"):
            if c[1] not in out and c[1] not in bound_stack:
                out.append(c[1])
        elif k in ("and", "or"):
            walk(c[1]); walk(c[2])
        elif k == "not":
            walk(c[1])
        elif k in ("exists", "forall"):
            bound_stack.append(c[1])
            walk(c[2])
            bound_stack.pop()
    walk(c)
    return out


def all_vars(c):
    """every variable mentioned, free or quantified"""
    out = []

    def add(v):
        if v not in out:
            out.append(v)

    def walk(c):
        k = c[0]
        if k == "cmp":
            for t in (c[2], c[3]):
                if t[0] not in ("lit", "slit", "tlit"):
                    add(t[1])
        elif k in ("in", "truthy"):
            if c[1][0] != "lit":
                add(c[1][1])
        elif k in ("has", "pred2"):
            add(c[1]); add(c[2])
        elif k in ("isa", "pred", "the", "predab"):
            add(c[1])
        elif k in ("and", "or"):
            walk(c[1]); walk(c[2])
        elif k == "not":
            walk(c[1])
        elif k in ("exists", "forall"):
            add(c[1]); walk(c[2])
    if c is not None:
        walk(c)
    return out


def features(c):
    f = set()

    def term(t):
        if t[0] in ("b", "kidv", "val0", "m", "s", "t"):
            f.add(t[0])
        if t[0] == "fnv":
            f.add("b")
        if t[0] == "flatv":
            f.add("kids")
            f.add("flatv")

    def walk(c):
        k = c[0]
        if k == "cmp":
            term(c[2]); term(c[3])
        elif k in ("in", "truthy"):
            term(c[1])
        elif k == "has":
            f.add("kids")
        elif k == "isa":
            f.add("p2")
        elif k in ("pred", "pred2"):
            f.add("pred")
        elif k == "predab":
            f.add("pred"); f.add("b")
        elif k in ("and", "or"):
            walk(c[1]); walk(c[2])
        elif k == "not":
            walk(c[1])
        elif k in ("exists", "forall"):
            walk(c[2])
        elif k == "the":
            f.add("the")
    if c is not None:
        walk(c)
    return f


def lits(c):
    out = set()

    def term(t):
        if t[0] == "lit":
            out.add(t[1])

    def walk(c):
        k = c[0]
        if k == "cmp":
            term(c[2]); term(c[3])
        elif k == "in":
            term(c[1]); [out.add(i) for i in c[2]]
        elif k in ("pred", "the"):
            out.add(c[2])
        elif k in ("and", "or"):
            walk(c[1]); walk(c[2])
        elif k == "not":
            walk(c[1])
        elif k in ("exists", "forall"):
            walk(c[2])
    if c is not None:
        walk(c)
    return out


def show(c):
    if c is None:
        return "true"
    k = c[0]
    if k == "cmp":
        return "%s%s%s" % (show_t(c[2]), c[1], show_t(c[3]))
    if k == "in":
        return "in(%s,[%s])" % (show_t(c[1]), ",".join("k%d" % i for i in c[2]))
    if k == "truthy":
        return show_t(c[1])
    if k == "has":
        return "contains(%s.kids,%s)" % (c[1], c[2])
    if k == "isa":
        return "HasType(%s,P2)" % c[1]
    if k == "pred":
        return "Gt(%s,k%d)" % (c[1], c[2])
    if k == "pred2":
        return "Gt2(%s,%s)" % (c[1], c[2])
    if k == "predab":
        return "GtVals(%s.a,%s.b)" % (c[1], c[1])
    if k == "the":
        return "%s.a==the(z:z.a==k%d).a" % (c[1], c[2])
    if k in ("and", "or"):
        return "%s(%s,%s)" % (k, show(c[1]), show(c[2]))
    if k == "not":
        return "not(%s)" % show(c[1])
    return "%s(%s,%s)" % (k, c[1], show(c[2]))


def show_t(t):
    if t[0] == "slit":
        return "S%d" % t[1]
    if t[0] == "tlit":
        return "T%d" % t[1]
    return {"fnv": "minus(%s)", "t": "%s.t", "sa": "A(%s)", "s": "%s.s", "a": "%s.a", "b": "%s.b", "kidv": "%s.kid.v", "val0": "%s.vals[0]", "m": "%s.m()", "flatv": "flatten(%s.kids).v"}[t[0]] % t[1] if t[0] != "lit" else "k%d" % t[1]


# ---------------------------------------------------------------------------------------------
# world
# ---------------------------------------------------------------------------------------------
class World:
    """domains for every variable of a shape; sizes are bounded symbolic choices, scalars unbounded symbolic ints"""

    def __init__(self, ctx, cond, selected, N, value_eq=False, min_size=0, extra_vars=(), pclass=None, wrap=None):
        self.ctx = ctx
        self.wrap = wrap  # optional: domain list -> iterable handed to let() (e.g. a monitored one-shot generator)
        f = features(cond)
        vs = list(dict.fromkeys(list(all_vars(cond)) + [s for s in selected if s in PVARS or s == "w"] + list(extra_vars)))
        self.vars = vs
        PC, QC = (VP, VQ) if value_eq else (P, Q)
        if pclass is not None:
            PC = pclass
        self.pool = []
        if "kids" in f or "w" in vs:
            self.pool = [QC(ctx.fresh_int("q%d" % i)) for i in range(2)]
        self.dom: Dict[str, List[Any]] = {}
        self.lits = {i: ctx.fresh_int("k%d" % i) for i in sorted(lits(cond))}
        for v in vs:
            if v == "w":
                self.dom[v] = list(self.pool)
                continue
            n = min_size + ctx.choice("n" + v, N + 1 - min_size)
            objs = []
            for i in range(n):
                kw = dict(a=ctx.fresh_int("%sa%d" % (v, i)))
                if "b" in f or "m" in f:
                    kw["b"] = ctx.fresh_int("%sb%d" % (v, i))
                cls = PC
                if "p2" in f and not value_eq and ctx.flag("%sis2_%d" % (v, i)):
                    cls = P2
                o = cls(**kw)
                if "s" in f:
                    o.s = SETS[ctx.choice("%ss%d" % (v, i), len(SETS))]
                if "t" in f:
                    o.t = TUPLES[ctx.choice("%st%d" % (v, i), len(TUPLES))]
                if "kidv" in f and not value_eq:
                    o.kid = Q(ctx.fresh_int("%skid%d" % (v, i)))
                if "val0" in f and not value_eq:
                    o.vals = [ctx.fresh_int("%sval%d" % (v, i))]
                if "kids" in f:
                    mask = ctx.choice("%skids%d" % (v, i), 4)
                    o.kids = [q for j, q in enumerate(self.pool) if mask >> j & 1]
                objs.append(o)
            self.dom[v] = objs
        # the sub-query of a ("the", v, lit) atom ranges over its own domain "t"
        if "the" in f:
            n = ctx.choice("nt", N + 1)
            self.dom["t"] = [PC(a=ctx.fresh_int("ta%d" % i)) for i in range(n)]
        self.evars: Dict[str, Any] = {}
        self.flat_vars = set()

        def _find_flat(c):
            if c is None:
                return
            if c[0] == "cmp":
                for t in (c[2], c[3]):
                    if t[0] == "flatv":
                        self.flat_vars.add(t[1])
            elif c[0] == "in" and c[1][0] == "flatv":
                self.flat_vars.add(c[1][1])
            elif c[0] in ("and", "or"):
                _find_flat(c[1]); _find_flat(c[2])
            elif c[0] == "not":
                _find_flat(c[1])
            elif c[0] in ("exists", "forall"):
                _find_flat(c[2])
        _find_flat(cond)

    def index(self, v, o):
        return index_of(self.dom[v], o)

    # ---- EQL construction -------------------------------------------------------------------
    def var(self, v):
        if v not in self.evars:
            typ = (VQ if isinstance(self.pool[0], VQ) else Q) if v == "w" else (VP if (self.dom[v] and isinstance(self.dom[v][0], VP)) else P)
            if v != "w" and not self.dom[v]:
                typ = VP if any(isinstance(o, VP) for d in self.dom.values() for o in d) else P
            dom = self.dom[v] if self.wrap is None else self.wrap(v, self.dom[v])
            self.evars[v] = let(typ, dom, name=v)
        return self.evars[v]

    def term(self, t):
        k = t[0]
        if k == "lit":
            return self.lits[t[1]]
        if k == "slit":
            return SETS[t[1]]
        if k == "tlit":
            return TUPLES[t[1]]
        v = self.var(t[1])
        if k == "t":
            return v.t
        if k == "fnv":
            return minus_fn(v)
        if k == "s":
            return v.s
        if k == "sa":  # ONE attribute expression node shared by all its uses (a = x.a; and_(a >= k, a))
            key = ("sa", t[1])
            if key not in self.evars:
                self.evars[key] = v.a
            return self.evars[key]
        if k == "a":
            return v.a
        if k == "b":
            return v.b
        if k == "kidv":
            return v.kid.v
        if k == "val0":
            return v.vals[0]
        if k == "m":
            return v.m()
        if k == "flatv":
            key = ("flat", t[1])
            if key not in self.evars:
                self.evars[key] = flatten(v.kids)  # one flattened-collection expression per variable
            return self.evars[key].v
        raise ValueError(k)

    def build(self, c):
        k = c[0]
        if k == "cmp":
            l, r = self.term(c[2]), self.term(c[3])
            return OPS[c[1]](l, r)
        if k == "in":
            return in_(self.term(c[1]), [self.lits[i] for i in c[2]])
        if k == "truthy":  # the expression on its own as a condition: its truth value
            return self.term(c[1])
        if k == "has":
            return contains(self.var(c[1]).kids, self.var(c[2]))
        if k == "isa":
            return HasType(self.var(c[1]), P2)
        if k == "pred":
            return GtPred(self.var(c[1]), self.lits[c[2]])
        if k == "pred2":
            return GtPred2(self.var(c[1]), self.var(c[2]))
        if k == "predab":
            return GtVals(self.var(c[1]).a, self.var(c[1]).b)
        if k == "the":
            t = let(type(self.dom["t"][0]) if self.dom["t"] else P, self.dom["t"], name="t")
            return self.var(c[1]).a == the(entity(t, t.a == self.lits[c[2]])).a
        if k == "and":
            return and_(self.build(c[1]), self.build(c[2]))
        if k == "or":
            return or_(self.build(c[1]), self.build(c[2]))
        if k == "not":
            return not_(self.build(c[1]))
        if k == "exists":
            return exists(self.var(c[1]), self.build(c[2]))
        if k == "forall":
            return for_all(self.var(c[1]), self.build(c[2]))
        raise ValueError(k)

    # ---- oracle ---------------------------------------------------------------------------------
    def tval(self, t, env):
        k = t[0]
        if k == "lit":
            return self.lits[t[1]]
        if k == "slit":
            return SETS[t[1]]
        if k == "tlit":
            return TUPLES[t[1]]
        o = env[t[1]]
        if k == "t":
            return o.t
        if k == "fnv":
            return o.a - o.b
        if k == "s":
            return o.s
        if k == "sa":
            return o.a
        if k == "a":
            return o.a
        if k == "b":
            return o.b
        if k == "kidv":
            return o.kid.v
        if k == "val0":
            return o.vals[0]
        if k == "m":
            return o.a + o.b
        if k == "flatv":
            return env["flat:" + t[1]].v  # flatten(v.kids) is a variable of its own, ranging over the kids of v's value
        raise ValueError(k)

    def truth(self, c, env):
        """first-order truth of c under env (var -> object); fork-free"""
        if c is None:
            return True
        k = c[0]
        if k == "cmp":
            l, r = self.tval(c[2], env), self.tval(c[3], env)
            if c[1] == "==":
                return EQ(l, r)
            if c[1] == "!=":
                return NOT(EQ(l, r))
            return OPS[c[1]](l, r)
        if k == "in":
            t = self.tval(c[1], env)
            return OR([EQ(t, self.lits[i]) for i in c[2]])
        if k == "truthy":
            return NOT(EQ(self.tval(c[1], env), 0))
        if k == "has":
            return any(q is env[c[2]] for q in env[c[1]].kids) if not isinstance(env[c[2]], VQ) else OR([EQ(q.v, env[c[2]].v) for q in env[c[1]].kids])
        if k == "isa":
            return isinstance(env[c[1]], P2)
        if k == "pred":
            return env[c[1]].a > self.lits[c[2]]
        if k == "pred2":
            return env[c[1]].a > env[c[2]].a
        if k == "predab":
            return env[c[1]].a > env[c[1]].b
        if k == "the":
            # defined only when exactly one t satisfies t.a == k (otherwise the() raises; see the_defined)
            return OR([AND(EQ(t.a, self.lits[c[2]]), EQ(env[c[1]].a, t.a)) for t in self.dom["t"]])
        if k == "and":
            return AND(self.truth(c[1], env), self.truth(c[2], env))
        if k == "or":
            return OR(self.truth(c[1], env), self.truth(c[2], env))
        if k == "not":
            return NOT(self.truth(c[1], env))
        if k == "exists":
            return OR([self.truth(c[2], {**env, c[1]: o}) for o in self.dom[c[1]]])
        if k == "forall":
            return AND([self.truth(c[2], {**env, c[1]: o}) for o in self.dom[c[1]]])
        raise ValueError(k)

    def the_count(self, c):
        """for shapes with a ("the", v, lit) atom: number of t with t.a == k (as a term)"""
        out = []

        def walk(c):
            if c[0] == "the":
                out.append(SUM([B2I(EQ(t.a, self.lits[c[2]])) for t in self.dom["t"]]))
            elif c[0] in ("and", "or"):
                walk(c[1]); walk(c[2])
            elif c[0] == "not":
                walk(c[1])
            elif c[0] in ("exists", "forall"):
                walk(c[2])
        walk(c)
        return out

    def assignments(self, free):
        """assignments of the free variables; a flattened collection flatten(v.kids) used by the condition is one more variable
        whose domain is the kids of v's value (no kids: no assignment)"""
        out = [dict(zip(free, combo)) for combo in itertools.product(*[self.dom[v] for v in free])]
        for fv in sorted(self.flat_vars):
            out = [{**a, "flat:" + fv: q} for a in out for q in a[fv].kids]
        return out


def is_elseif_fragment(c):
    """C02's fragment: NNF, and_, or_ only between conditions over the same variables (then the built node is an ElseIf)"""
    k = c[0]
    if "flatv" in features(c):
        return False  # a flattened collection multiplies results per element: judged by C01 (set reading) only
    if k in ("cmp", "in", "has", "isa", "pred", "pred2", "predab"):
        return True
    if k == "not":
        return c[1][0] in ("cmp", "in", "has", "isa", "pred", "pred2", "predab")
    if k == "and":
        return is_elseif_fragment(c[1]) and is_elseif_fragment(c[2])
    if k == "or":
        return is_elseif_fragment(c[1]) and is_elseif_fragment(c[2]) and set(all_vars(c[1])) == set(all_vars(c[2]))
    return False


# ---------------------------------------------------------------------------------------------
# shape enumeration
# ---------------------------------------------------------------------------------------------
def atoms(vars_, level):
    """atoms over the given variables; level 0 = small core set, 1 = more, 2 = all"""
    x = vars_[0]
    y = vars_[1] if len(vars_) > 1 else None
    out = [("cmp", "==", ("a", x), ("lit", 0)), ("cmp", ">", ("a", x), ("lit", 0))]
    if level >= 1:
        out += [("cmp", "<=", ("a", x), ("b", x)), ("in", ("a", x), (0, 1)), ("cmp", "!=", ("a", x), ("lit", 0)), ("pred", x, 0), ("predab", x)]
    if level >= 2:
        out += [("cmp", "<", ("kidv", x), ("lit", 0)), ("cmp", ">=", ("val0", x), ("lit", 0)), ("cmp", "==", ("m", x), ("lit", 0)), ("isa", x), ("has", x, "w"), ("cmp", "<", ("lit", 0), ("a", x)), ("cmp", ">", ("flatv", x), ("lit", 0)), ("cmp", "==", ("flatv", x), ("a", x))]
    if level >= 2:
        # order comparisons over a partially ordered type: not (a < b) is not (a >= b)
        out += [("cmp", "<", ("s", x), ("slit", 1)), ("cmp", ">=", ("s", x), ("slit", 2))]
        if y:
            out += [("cmp", "<=", ("s", x), ("s", y))]
        # the result of a symbolic function as an operand (a falsy result is a value like any other)
        out += [("cmp", "==", ("fnv", x), ("lit", 0)), ("cmp", "!=", ("fnv", x), ("lit", 0))]
        # order comparisons between sequence values are lexicographic
        out += [("cmp", ">=", ("t", x), ("tlit", 1))]
        if y:
            out += [("cmp", "<", ("t", x), ("t", y))]
    if y:
        out += [("cmp", "==", ("a", x), ("a", y)), ("cmp", "<", ("a", x), ("a", y))]
        if level >= 2:
            out += [("pred2", x, y)]
        if level >= 2:
            out += [("cmp", ">=", ("b", x), ("a", y)), ("cmp", "!=", ("a", y), ("a", x))]
    return out


def relabel_lits(c, start=0):
    """give every literal occurrence its own symbolic literal"""
    counter = [start]

    def nl():
        counter[0] += 1
        return counter[0] - 1

    def term(t):
        return ("lit", nl()) if t[0] == "lit" else t

    def walk(c):
        k = c[0]
        if k == "cmp":
            return ("cmp", c[1], term(c[2]), term(c[3]))
        if k == "in":
            return ("in", term(c[1]), (nl(), nl()))
        if k in ("pred", "the"):
            return (k, c[1], nl())
        if k in ("and", "or"):
            return (k, walk(c[1]), walk(c[2]))
        if k == "not":
            return ("not", walk(c[1]))
        if k in ("exists", "forall"):
            return (k, c[1], walk(c[2]))
        return c
    return walk(c)
