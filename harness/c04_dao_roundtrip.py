"""C04 -- object -> DAO -> object round trip preserves structure, types and aliasing."""
from __future__ import annotations

import dataclasses
import enum
from datetime import datetime

from vlib.core import Case
from vlib.symx import AND, OR, NOT, IMPLIES, IFF, EQ, is_sym

from . import ormmodel as M
from . import ormgen

PROPERTY = "C04"
LEVEL = "model_checking"


def _dedupe(xs):
    out = []
    for x in xs:
        if not any(x is y for y in out):
            out.append(x)
    return out


def isomorphic(a, b, collections_as_sets=False):
    """bisimulation with identity classes between two object graphs; returns (True or reason, scalar_terms).
    collections_as_sets: collections of objects are compared as sets of elements (C05: 'contain the same elements')"""
    fwd, inv, terms = {}, {}, []

    def walk(x, y, path):
        if x is None or y is None:
            return (x is None and y is None) or "None-ness differs at " + path
        if id(x) in fwd:
            return fwd[id(x)] is y or "sharing lost at " + path
        if id(y) in inv:
            return "two distinct objects became one at " + path
        fwd[id(x)] = y
        inv[id(y)] = x
        if type(x) is not type(y):
            return "class differs at %s: %s vs %s" % (path, type(x).__name__, type(y).__name__)
        for f in dataclasses.fields(x):
            u, v = getattr(x, f.name), getattr(y, f.name, "<missing>")
            p = path + "." + f.name
            if dataclasses.is_dataclass(u) or (u is None and dataclasses.is_dataclass(v)) or (v is None and dataclasses.is_dataclass(u)):
                r = walk(u, v, p)
                if r is not True:
                    return r
            elif isinstance(u, list):
                if collections_as_sets and isinstance(v, list) and any(dataclasses.is_dataclass(e) for e in u + v):
                    u, v = _dedupe(u), _dedupe(v)
                    # order-insensitive: pair every element with its partner (if the walk met it already) or with the
                    # first unused element of the same class and the same plain field values
                    def plain(o):
                        return tuple((f.name, getattr(o, f.name)) for f in dataclasses.fields(o) if isinstance(getattr(o, f.name), (int, str, float, bool, type(None))))
                    pool_v, ordered = list(v), []
                    for e in u:
                        g = next((g for g in pool_v if fwd.get(id(e)) is g), None)
                        if g is None and id(e) not in fwd:
                            g = next((g for g in pool_v if id(g) not in inv and type(g) is type(e) and plain(g) == plain(e)), None)
                        if g is None:
                            return "collection elements differ at " + p
                        pool_v.remove(g)
                        ordered.append(g)
                    if pool_v:
                        return "collection has extra elements at " + p
                    v = ordered
                if not isinstance(v, list) or len(u) != len(v):
                    return "collection differs at " + p
                for i, (e, g) in enumerate(zip(u, v)):
                    if dataclasses.is_dataclass(e):
                        r = walk(e, g, "%s[%d]" % (p, i))
                        if r is not True:
                            return r
                    elif is_sym(e) or is_sym(g):
                        terms.append(EQ(e, g))
                    elif e != g or type(e) is not type(g):
                        return "element differs at %s[%d]" % (p, i)
            elif is_sym(u) or is_sym(v):
                terms.append(EQ(u, v))
            else:
                if u != v or type(u) is not type(v):
                    return "value differs at %s: %r vs %r" % (p, u, v)
        return True

    r = walk(a, b, "root")
    return r, terms


LEAF_SEQS = [[], [0], [0, 1], [1, 0], [0, 0], [1], [0, 1, 0]]


def pick(ctx, name, n, fixed):
    if name in fixed:
        return fixed[name]
    return ctx.choice(name, n)


def graph_case(n_nodes, with_vecs, fixed, nseq):
    """nodes (Node / SubNode) with parent links (cycles, self references), a single-valued reference and an ordered
    collection into a pool of two shared targets (leaves of three classes, or alternatively mapped Vecs)"""

    def h(ctx):
        ormgen.harness_dao()
        from krrood.ormatic.dao import to_dao

        if with_vecs:
            pool = [M.Vec(ctx.fresh_int("x%d" % j)) for j in range(2)]
        else:
            kinds = [pick(ctx, "leafclass%d" % j, 4, fixed) for j in range(2)]
            pool = []
            for j, k in enumerate(kinds):
                if k == 0:
                    pool.append(M.Leaf(ctx.fresh_int("v%d" % j)))
                elif k == 1:
                    pool.append(M.SubLeaf(ctx.fresh_int("v%d" % j), ctx.fresh_int("w%d" % j)))
                elif k == 2:
                    pool.append(M.SubSubLeaf(ctx.fresh_int("v%d" % j), ctx.fresh_int("w%d" % j), ctx.fresh_int("z%d" % j)))
                else:
                    pool.append(M.DeepLeaf(ctx.fresh_int("v%d" % j), ctx.fresh_int("w%d" % j), d=ctx.fresh_int("d%d" % j)))
        nodes = []
        for i in range(n_nodes):
            if pick(ctx, "sub%d" % i, 2, fixed):
                nodes.append(M.SubNode(ctx.fresh_int("tag%d" % i), extra=ctx.fresh_int("extra%d" % i)))
            else:
                nodes.append(M.Node(ctx.fresh_int("tag%d" % i)))
        shape = []
        for i, nd in enumerate(nodes):
            p = pick(ctx, "parent%d" % i, n_nodes + 1, fixed) - 1
            nd.parent = nodes[p] if p >= 0 else None
            s = pick(ctx, "single%d" % i, 3, fixed) - 1
            q = pick(ctx, "seq%d" % i, nseq, fixed)
            seq = [pool[j] for j in LEAF_SEQS[q]]
            if with_vecs:
                nd.vec = pool[s] if s >= 0 else None
                nd.vecs = seq
            else:
                nd.leaf = pool[s] if s >= 0 else None
                nd.leaves = seq
            shape.append((type(nd).__name__, p, s, LEAF_SEQS[q]))
        root = nodes[0]
        back = to_dao(root).from_dao()
        ctx.observe(shape)
        ctx.note("nonempty", 1)
        r, terms = isomorphic(root, back)
        v = {"same-structure-classes-and-aliasing": r is True}
        if r is True:
            v["equal-field-values"] = AND(terms) if terms else True
        else:
            ctx.observe(str(r))
        return v

    return h


def rich_case():
    def h(ctx):
        ormgen.harness_dao()
        from krrood.ormatic.dao import to_dao

        colors = list(M.Color)
        owner = M.Node(ctx.fresh_int("tag")) if ctx.flag("has_owner") else None
        o = M.Rich(
            number=ctx.fresh_int("number"),
            opt=ctx.fresh_int("opt") if ctx.flag("has_opt") else None,
            color=colors[ctx.choice("color", 3)],
            opt_color=(colors[ctx.choice("opt_color", 3)] if ctx.flag("has_opt_color") else None),
            when=datetime(2021, 5, 17, 12, 30, 1, 999),
            names=[["a", "", "ünï", "a"], []][ctx.choice("names", 2)],
            numbers=[ctx.fresh_int("n0"), ctx.fresh_int("n1")] if ctx.flag("has_numbers") else [],
            flag=bool(ctx.choice("flag", 2)),
            ratio=[0.0, -1.5, 1e308][ctx.choice("ratio", 3)],
            text=["", "x y", "ß"][ctx.choice("text", 3)],
            owner=owner,
        )
        back = to_dao(o).from_dao()
        ctx.observe(o.color.name, o.names, o.flag)
        ctx.note("nonempty", 1)
        r, terms = isomorphic(o, back)
        return {"same-structure-classes-and-aliasing": r is True, "equal-field-values": AND(terms) if (terms and r is True) else True}

    return h


def two_roots_case():
    """two conversions sharing one state: an object reachable from both roots is one DAO / one object"""

    def h(ctx):
        ormgen.harness_dao()
        from krrood.ormatic.dao import to_dao, ToDAOState, FromDAOState

        leaf = [M.Leaf, M.SubLeaf][ctx.choice("leafclass", 2)](ctx.fresh_int("v"))
        a = M.Node(ctx.fresh_int("ta"), leaf=leaf)
        b = M.Node(ctx.fresh_int("tb"), leaf=leaf, parent=a if ctx.flag("b_parent_a") else None)
        st = ToDAOState()
        da, db = to_dao(a, st), to_dao(b, st)
        fs = FromDAOState()
        ra, rb = da.from_dao(fs), db.from_dao(fs)
        ctx.note("nonempty", 1)
        ok = da.leaf is db.leaf and ra.leaf is rb.leaf and type(ra.leaf) is type(leaf) and (rb.parent is ra if b.parent is a else rb.parent is None)
        return {"shared-state-keeps-sharing": ok, "equal-field-values": AND(EQ(ra.tag, a.tag), EQ(rb.tag, b.tag), EQ(ra.leaf.v, leaf.v))}

    return h


def bag_case():
    """an alternatively mapped container (the mapping exposes its relationship under another name than the constructor
    argument) or a normally mapped subclass of it, whose elements are also referenced from elsewhere"""

    def h(ctx):
        ormgen.harness_dao()
        from krrood.ormatic.dao import to_dao

        backref = ctx.flag("backref")  # the first element refers back to the container that holds it (a cycle through the container)
        pool = [(M.BackLeaf if backref else M.Leaf)(ctx.fresh_int("v0")), M.SubLeaf(ctx.fresh_int("v1"))]
        items = [pool[j] for j in LEAF_SEQS[ctx.choice("items", 5)]]
        kind = ctx.choice("bagclass", 3)
        if kind:
            # the normally mapped subclasses (one and two levels below the alternatively mapped class) declare relationships of their own
            sp = ctx.choice("spare", 3) - 1
            kw = dict(label=ctx.fresh_int("label"), spare=pool[sp] if sp >= 0 else None, more=[pool[j] for j in LEAF_SEQS[ctx.choice("more", 3)]])
            bag = M.LabeledBag(items, **kw) if kind == 1 else M.SealedBag(items, seal=ctx.fresh_int("seal"), **kw)
        else:
            bag = M.Bag(items)
        if backref:
            pool[0].home = bag
        fav = ctx.choice("favourite", 3) - 1
        others = [pool[j] for j in LEAF_SEQS[ctx.choice("others", 4)]]
        root = bag if ctx.flag("bag-is-root") else M.Holder(bag, pool[fav] if fav >= 0 else None, others)
        back = to_dao(root).from_dao()
        ctx.observe(type(bag).__name__, type(root).__name__, [index_of_id(pool, x) for x in items], fav, [index_of_id(pool, x) for x in others])
        ctx.note("nonempty", 1)
        r, terms = isomorphic(root, back)
        v = {"same-structure-classes-and-aliasing": r is True}
        if r is True:
            v["equal-field-values"] = AND(terms) if terms else True
        else:
            ctx.observe(str(r))
        return v

    return h


def index_of_id(xs, o):
    return next((i for i, x in enumerate(xs) if x is o), -1)


def car_case():
    """two objects that refer to each other through one-to-one references that are not annotated Optional"""

    def h(ctx):
        ormgen.harness_dao()
        from krrood.ormatic.dao import to_dao

        c, e = M.Car(ctx.fresh_int("plate")), M.Engine(ctx.fresh_int("power"))
        if ctx.flag("car-has-engine"):
            c.engine = e
        if ctx.flag("engine-has-car"):
            e.car = c
        root = c if ctx.flag("root-is-car") else e
        back = to_dao(root).from_dao()
        ctx.note("nonempty", 1)
        r, terms = isomorphic(root, back)
        v = {"same-structure-classes-and-aliasing": r is True}
        if r is True:
            v["equal-field-values"] = AND(terms) if terms else True
        return v

    return h


def drawing_case():
    """an alternatively mapped SUBCLASS of a normally mapped class, reached through fields typed with the base class"""

    def h(ctx):
        ormgen.harness_dao()
        from krrood.ormatic.dao import to_dao

        pool = [M.Shape(ctx.fresh_int("sides0")), M.Circle(ctx.fresh_int("sides1"), ctx.fresh_int("radius1")), M.Circle(ctx.fresh_int("sides2"), ctx.fresh_int("radius2"))]
        mi = ctx.choice("main", 4) - 1
        seq = [[], [1], [0, 1], [1, 2, 1], [2, 0]][ctx.choice("shapes", 5)]
        root = M.Drawing(ctx.fresh_int("number"), pool[mi] if mi >= 0 else None, [pool[j] for j in seq])
        back = to_dao(root).from_dao()
        ctx.observe(mi, seq)
        ctx.note("nonempty", 1)
        r, terms = isomorphic(root, back)
        v = {"same-structure-classes-and-aliasing": r is True}
        if r is True:
            v["equal-field-values"] = AND(terms) if terms else True
        else:
            ctx.observe(str(r))
        return v

    return h


def short_lived_case(max_n):
    """objects that die while the conversion state lives: helper objects built on the fly by an alternative mapping, and
    several short-lived roots converted one after the other with ONE state (CPython re-uses the addresses of dead objects)"""

    def h(ctx):
        ormgen.harness_dao()
        from krrood.ormatic.dao import to_dao, ToDAOState

        v = {}
        k = range(3)[ctx.choice("strips", 3)]
        lens = [range(3)[ctx.choice("len%d" % i, 3)] for i in range(k)]
        c = 0
        strips = []
        for n in lens:
            strips.append(M.Strip([10 * (c + j) for j in range(n)]))
            c += n
        back = to_dao(M.Album(7, strips)).from_dao()
        v["helper-objects-of-an-alternative-mapping-come-back"] = [s.values for s in back.strips] == [s.values for s in strips] and back.number == 7
        n = 1 + range(max_n)[ctx.choice("n", max_n)]
        kinds = [ctx.choice("kind%d" % i, 3) for i in range(n)]
        st = ToDAOState()
        daos = []
        for i, kd in enumerate(kinds):
            daos.append(to_dao(M.Node(i, leaf=[None, M.Leaf(100 + i), M.SubLeaf(100 + i, i)][kd]), st))  # the object is a temporary
        got = []
        for d in daos:
            o = d.from_dao()
            got.append((o.tag, None if o.leaf is None else (type(o.leaf).__name__, o.leaf.v)))
        exp = [(i, None if kd == 0 else (["", "Leaf", "SubLeaf"][kd], 100 + i)) for i, kd in enumerate(kinds)]
        ctx.observe(lens, kinds, got)
        ctx.note("nonempty", 1)
        v["short-lived-objects-converted-with-one-state-keep-their-own-values"] = got == exp and len({id(d) for d in daos}) == n
        return v

    return h


def cases(tier, seed):
    ormgen.harness_dao()  # generated once here (parent process) from the current tree; workers inherit it
    cs = []
    # quick: 2 nodes, the class of the second target rotates with the case. thorough: 2 nodes with every combination of target
    # classes and all 7 collection shapes ("wide"), and 3 nodes with the rotation and the 2 shortest collection shapes ("deep");
    # 3 nodes with everything free is 3.2 million paths per case and ran into every budget (measured)
    plans = [(2, 5, True)] if tier == "quick" else [(2, 7, False), (3, 2, True)]
    for n, nseq, rotate in plans:
        for with_vecs in (False, True):
            for sub0 in (0, 1):
                for parent0, single0 in [(a, b) for a in range(n + 1) for b in range(3)]:
                    fixed = {"sub0": sub0, "parent0": parent0, "single0": single0}
                    if rotate:
                        fixed["leafclass1"] = (parent0 + single0 + sub0) % 4
                    nm = "graph|%s|node0=%s,parent0=%d,ref0=%d" % ("alt-mapped Vec targets" if with_vecs else "Leaf/SubLeaf/SubSubLeaf targets", ["Node", "SubNode"][sub0], parent0 - 1, single0 - 1)
                    if tier != "quick":
                        nm += "|deep" if n == 3 else "|wide"
                    cs.append(Case(nm + "|n=%d" % n, graph_case(n, with_vecs, fixed, nseq), key=nm, validate=1, timeout=900 if tier == "quick" else 3000,
                                   max_paths=200000 if tier == "quick" else 3000000))
    cs.append(Case("rich scalars", rich_case(), validate=2, timeout=600))
    cs.append(Case("two roots, one conversion state", two_roots_case(), validate=2))
    cs.append(Case("alternatively mapped container and its normally mapped subclasses", bag_case(), key="bag", validate=2, timeout=900))
    cs.append(Case("alternatively mapped subclass of a normally mapped class behind base-typed fields", drawing_case(), key="drawing", validate=2, timeout=900))
    cs.append(Case("mutual one-to-one references that are not annotated Optional", car_case(), key="car", validate=2, timeout=600))
    cs.append(Case("objects that die while the conversion state lives", short_lived_case(3 if tier == "quick" else 4), key="short-lived", validate=0, timeout=900))
    return cs


def describe(tier):
    n = 2 if tier == "quick" else 3
    return dict(
        rule="object graphs over the harness model (DAO layer generated at check time by the current tree's ORMatic): %d nodes (Node / SubNode) with every parent "
        "link incl. self references and cycles, a single-valued reference and an ordered collection (with repeated elements) into a pool of two shared targets "
        "(Leaf / SubLeaf / SubSubLeaf instances, or alternatively mapped Vec objects); a class with scalars of every supported kind; two roots converted with one "
        "shared state; an alternatively mapped container (relationship exposed under another name than the constructor argument) / a normally mapped subclass of it "
        "(one and two levels below, with relationships of their own) whose elements are also referenced from its holder; an alternatively mapped subclass of a normally mapped class behind base-typed fields; helper objects built on the fly by an alternative mapping and short-lived roots converted with one state. Shape = bounded symbolic choices, scalar fields = unbounded z3 integers; oracle = bisimulation with identity classes (same classes, sharing, "
        "order, None positions) + equality of all scalar fields decided by the solver. non-trivial = every path converts a graph" % n,
        bounds=dict(nodes=n if tier == "quick" else "2 with every target class and all collection shapes; 3 with the quick tier's rotation of target classes and the 2 shortest collection shapes", pool=2, collection_length="<= %d" % (2 if tier == "quick" else 3), scalars="unbounded integers; enum/datetime/str/float/bool/list-of-str from small pools"),
        outside=["graphs with more than %d nodes" % n, "custom TypeDecorator columns", "self-referential collections (the generator rejects them, see C06)"],
        assumptions=["SQLAlchemy instrumented attributes store and return symbolic integers untouched (validated by the native re-run on seeded values every run)"],
    )
