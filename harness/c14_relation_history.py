"""C14 -- asserting a relation has the same effect whatever objects lived and died before."""
from __future__ import annotations

import gc
import weakref

from vlib.core import Case

from krrood.entity_query_language.entity import entity, let
from krrood.entity_query_language.quantify_entity import an
from krrood.entity_query_language.symbol_graph import SymbolGraph

from . import sgworld as W
from .eqlworld import index_of

PROPERTY = "C14"
LEVEL = "model_checking"


def final_assertions(ids, which, objs):
    """runs the assertion sequence `which` on fresh instances (possibly re-using ids / graph slots of dead ones) and
    returns (final objects, expected relations among them as (i, field, j))"""
    if which == "works_for":
        a = W.create(ids, W.Human, name=1)
        b = W.create(ids, W.Org, name=2)
        a.works_for = b
        return [a, b], {(0, "works_for", 1), (0, "member_of", 1), (1, "members", 0)}, lambda: a.works_for is b and any(x is b for x in a.member_of) and any(x is a for x in b.members)
    if which == "works_for-existing-org":
        live_orgs = [o for o in objs if isinstance(o, W.Org)]
        if not live_orgs:
            return None
        b = live_orgs[0]
        a = W.create(ids, W.Human, name=1)
        a.works_for = b
        return [a, b], {(0, "works_for", 1), (0, "member_of", 1), (1, "members", 0)}, lambda: a.works_for is b and any(x is b for x in a.member_of) and any(x is a for x in b.members)
    if which == "transitive-chain":
        x, y, z = (W.create(ids, W.Org, name=i) for i in (1, 2, 3))
        x.sub_org_of.append(y)
        y.sub_org_of.append(z)
        return [x, y, z], {(0, "sub_org_of", 1), (1, "sub_org_of", 2), (0, "sub_org_of", 2), (0, "related_to", 1), (1, "related_to", 2), (0, "related_to", 2)}, lambda: [index_of([x, y, z], o) for o in x.sub_org_of] == [1, 2] and [index_of([x, y, z], o) for o in y.sub_org_of] == [2]
    if which == "transitive-chain-with-sweep":
        # the same chain, with a query (which sweeps dead instances) between the two assertions
        x, y, z = (W.create(ids, W.Org, name=i) for i in (1, 2, 3))
        x.sub_org_of.append(y)
        list(an(entity(let(W.Human, None))).evaluate())
        y.sub_org_of.append(z)
        return [x, y, z], {(0, "sub_org_of", 1), (1, "sub_org_of", 2), (0, "sub_org_of", 2), (0, "related_to", 1), (1, "related_to", 2), (0, "related_to", 2)}, lambda: [index_of([x, y, z], o) for o in x.sub_org_of] == [1, 2] and [index_of([x, y, z], o) for o in y.sub_org_of] == [2]
    if which == "member-add":
        o = W.create(ids, W.Org, name=1)
        p = W.create(ids, W.Human, name=2)
        o.members.add(p)
        return [o, p], {(0, "members", 1), (1, "member_of", 0)}, lambda: any(x is p for x in o.members) and any(x is o for x in p.member_of)
    if which == "existing-human-works-for-new-org":
        live = [o for o in objs if isinstance(o, W.Human)]
        if not live:
            return None
        a = live[0]
        b = W.create(ids, W.Org, name=2)
        a.works_for = b
        return [a, b], {(0, "works_for", 1), (0, "member_of", 1), (1, "members", 0)}, lambda: a.works_for is b and any(x is b for x in a.member_of) and any(x is a for x in b.members)
    if which == "existing-org-sub-org-of-new-chain":
        live = [o for o in objs if isinstance(o, W.Org)]
        if not live:
            return None
        x = live[0]
        y, z = (W.create(ids, W.Org, name=i) for i in (2, 3))
        y.sub_org_of.append(z)
        x.sub_org_of.append(y)
        return [x, y, z], {(0, "sub_org_of", 1), (1, "sub_org_of", 2), (0, "sub_org_of", 2), (0, "related_to", 1), (1, "related_to", 2), (0, "related_to", 2)}, lambda: all(any(o is t for o in x.sub_org_of) for t in (y, z)) and [index_of([x, y, z], o) for o in y.sub_org_of] == [2]
    if which == "new-boss-heads-new-org":
        # a role (Boss) of a new human is related to a new org: the inference reaches the role taker
        p_ = W.create(ids, W.Human, name=1)
        o = W.create(ids, W.Org, name=2)
        b = W.create(ids, W.Boss, person=p_)
        b.head_of = o
        return ([p_, o, b], {(2, "head_of", 1), (0, "works_for", 1), (0, "member_of", 1), (1, "members", 2), (1, "members", 0)},
                lambda: b.head_of is o and p_.works_for is o and any(x is o for x in p_.member_of) and any(x is b for x in o.members))
    if which == "existing-human-becomes-boss-of-new-org":
        live = [o_ for o_ in objs if isinstance(o_, W.Human)]
        if not live:
            return None
        p_ = live[0]
        b = W.create(ids, W.Boss, person=p_)  # the first new node: it takes the most recently freed slot of the graph
        o = W.create(ids, W.Org, name=2)
        b.head_of = o
        return ([p_, o, b], {(2, "head_of", 1), (0, "works_for", 1), (0, "member_of", 1), (1, "members", 2), (1, "members", 0)},
                lambda: b.head_of is o and p_.works_for is o and any(x is o for x in p_.member_of) and any(x is b for x in o.members))
    raise ValueError(which)


def history_case(L, first_ops, which):
    def h(ctx):
        g = W.fresh_graph()
        ids = W.VirtualIds(ctx)
        ids.install()
        try:
            objs, trace = [], []
            v = {"no-exception": True}

            def do(op):
                trace.append(op)
                if op[0] == "create":
                    objs.append(W.create(ids, W.CLASSES[op[1]], name=len(objs)))
                elif op[0] == "works_for":
                    objs[op[1]].works_for = objs[op[2]]
                elif op[0] == "sub_org":
                    objs[op[1]].sub_org_of.append(objs[op[2]])
                elif op[0] == "drop":
                    W.drop(ids, objs, op[1])
                elif op[0] == "collect":
                    gc.collect()
                elif op[0] == "pair":  # macro: a related Human / Org pair
                    hh, oo = W.create(ids, W.Human, name=len(objs)), W.create(ids, W.Org, name=len(objs) + 1)
                    objs.extend([hh, oo])
                    hh.works_for = oo
                elif op[0] == "chain":  # macro: two Orgs related by the transitive property
                    o1, o2 = W.create(ids, W.Org, name=len(objs)), W.create(ids, W.Org, name=len(objs) + 1)
                    objs.extend([o1, o2])
                    o1.sub_org_of.append(o2)
                elif op[0] == "purge":  # macro: the program lets go of everything, the collector runs, a query sweeps
                    for i in range(len(objs)):
                        W.drop(ids, objs, i)
                    gc.collect()
                    list(an(entity(let(W.Org, None))).evaluate())
                elif op[0] == "role":  # macro: a role of a human heads an org; all three are let go, collected and swept
                    hh, oo = W.create(ids, W.Human, name=len(objs)), W.create(ids, W.Org, name=len(objs) + 1)
                    bb = W.create(ids, W.Boss, person=hh)
                    objs.extend([hh, oo, bb])
                    bb.head_of = oo
                    del hh, oo, bb
                    for i in (len(objs) - 1, len(objs) - 2, len(objs) - 3):
                        W.drop(ids, objs, i)
                    gc.collect()
                    list(an(entity(let(W.Org, None))).evaluate())
                elif op[0] == "retarget":  # macro: a source outlives its target: h works for o1, then for o2; o1 is let go and swept
                    hh, o1, o2 = W.create(ids, W.Human, name=len(objs)), W.create(ids, W.Org, name=len(objs) + 1), W.create(ids, W.Org, name=len(objs) + 2)
                    objs.extend([hh, o1, o2])
                    hh.works_for = o1
                    hh.works_for = o2
                    hh.member_of = [o2]
                    o1.members = set()
                    W.drop(ids, objs, len(objs) - 2)
                    del o1
                    gc.collect()
                    list(an(entity(let(W.Org, None))).evaluate())
                elif op[0] == "retarget-sub":  # macro: the same with the transitive collection property
                    o0, o1, o2 = (W.create(ids, W.Org, name=len(objs) + i) for i in range(3))
                    objs.extend([o0, o1, o2])
                    o0.sub_org_of.append(o1)
                    o0.sub_org_of = [o2]
                    W.drop(ids, objs, len(objs) - 2)
                    del o1
                    gc.collect()
                    list(an(entity(let(W.Human, None))).evaluate())
                elif op[0] == "sweep":
                    list(an(entity(let(W.Org, None))).evaluate())  # every evaluation sweeps dead instances first

            try:
                for s in range(L):
                    humans = [i for i, o in enumerate(objs) if isinstance(o, W.Human)]
                    orgs = [i for i, o in enumerate(objs) if isinstance(o, W.Org)]
                    live = [i for i, o in enumerate(objs) if o is not None]
                    opts = [("create", "Org"), ("create", "Human")] + [("works_for", a, b) for a in humans for b in orgs] + [("sub_org", a, b) for a in orgs for b in orgs if a != b] + [("drop", i) for i in live] + [("collect",), ("sweep",), ("pair",), ("chain",), ("purge",)]
                    if s < len(first_ops) and first_ops[s][0] in ("retarget", "retarget-sub", "role"):
                        opts.append(first_ops[s])  # (only as a forced first operation)
                    if s < len(first_ops):
                        op = first_ops[s]
                        if op not in opts:
                            ctx.assume(False)
                    else:
                        op = opts[ctx.choice("op%d" % s, len(opts))]
                    do(op)
            except Exception as e:
                # a failure inside the prefix history itself (before the assertion under test)
                v["no-exception"] = False
                ctx.observe("prefix raised %s: %s" % (type(e).__name__, str(e)[:80]))
                return v
            before = {(id(e.source.instance), e.wrapped_field.name, id(e.target.instance)) for e in SymbolGraph()._instance_graph.edges() if e.source.instance is not None and e.target.instance is not None}
            try:
                fin = final_assertions(ids, which, objs)
            except Exception as e:
                v["no-exception"] = False
                ctx.observe("assertion raised %s: %s" % (type(e).__name__, str(e)[:100]))
                return v
            if fin is None:
                ctx.assume(False)
            finals, expected, fields_ok = fin
            # relations among the final instances that the assertion sequence added (those the prefix had put there are not counted)
            got = set()
            for e in SymbolGraph()._instance_graph.edges():
                si, ti = index_of(finals, e.source.instance), index_of(finals, e.target.instance)
                if si >= 0 and ti >= 0 and (id(e.source.instance), e.wrapped_field.name, id(e.target.instance)) not in before:
                    got.add((si, e.wrapped_field.public_name if hasattr(e.wrapped_field, "public_name") else e.wrapped_field.name, ti))
            ctx.observe([list(map(str, o)) for o in trace], sorted(got))
            ctx.note("nonempty", 1)
            ctx.note("id_reused", ids.reused)
            v["relations-recorded-and-inferred-as-on-a-fresh-graph"] = got == expected
            v["field-values-as-on-a-fresh-graph"] = bool(fields_ok())
            # the relation edges are attached to the right instances
            g2 = SymbolGraph()
            v["each-final-instance-has-one-node"] = all(sum(1 for n in g2._instance_graph.nodes() if n.instance is o) == 1 for o in finals)
            return v
        finally:
            ids.uninstall()

    return h


FINALS = ["works_for", "works_for-existing-org", "transitive-chain", "transitive-chain-with-sweep", "member-add"]


def cases(tier, seed):
    L = 3 if tier == "quick" else 5
    cs = []
    firsts = [[("create", "Org")], [("create", "Human")], [("pair",)], [("chain",)]]
    if tier != "quick":
        firsts = [[("create", a), ("create", b)] for a in ("Org", "Human") for b in ("Org", "Human")]
    for which in FINALS:
        for f in firsts:
            nm = "prefix|first=%s|then %s" % ("+".join(":".join(map(str, o)) for o in f), which)
            Lw = 4 if tier != "quick" and which.startswith("transitive-chain") else L  # (measured: the chain finals run into the budget at 5)
            cs.append(Case(nm + "|L=%d" % Lw, history_case(Lw, f, which), key=nm, reset=W.world_reset, validate=0, timeout=900 if tier == "quick" else 3000, max_paths=400000))
    for f, which in [([("retarget",)], "existing-human-works-for-new-org"), ([("retarget-sub",)], "existing-org-sub-org-of-new-chain"), ([("pair",)], "existing-human-works-for-new-org"), ([("chain",)], "existing-org-sub-org-of-new-chain"), ([("role",)], "new-boss-heads-new-org"), ([("create", "Org")], "new-boss-heads-new-org"),
                     ([("create", "Human"), ("role",)], "existing-human-becomes-boss-of-new-org")]:
        nm = "prefix|first=%s|then %s" % ("+".join(":".join(map(str, o_)) for o_ in f), which)
        Lc = len(f) if f[-1][0] == "role" else min(L, 4)  # (the role prefixes are not extended by symbolic operations: they are costly; one fixed + 4 free operations runs into the budget)
        cs.append(Case(nm + "|L=%d" % Lc, history_case(Lc, f, which), key=nm, reset=W.world_reset, validate=0, timeout=900 if tier == "quick" else 3000, max_paths=400000))
    return cs


def describe(tier):
    L = 3 if tier == "quick" else 5
    return dict(
        rule="a prefix history of %d operations (bounded symbolic choices among create Org / Human, h.works_for = o, o.sub_org_of.append(o2), drop reference i, gc.collect(), "
        "a sweeping query, and the macro operations 'related pair', 'transitive chain', 'drop everything + collect + sweep') on the real SymbolGraph with a nondeterministic id() allocator (ids and graph slots of dead instances are re-used in every possible way), "
        "followed by an assertion sequence on new instances (works_for on new / existing org, a transitive chain, members.add); a role (Boss) related to an org after an earlier role lived and died; also prefixes in which a source outlives its target (the field is re-assigned, the old target is dropped and swept) followed by relating the surviving source to a new instance; the relations among the final instances, "
        "the field values and the number of graph nodes per instance must be what the same assertions give on a fresh graph. non-trivial = every path reaches the assertion" % L,
        bounds=dict(prefix_length=L, classes="Org, Human with Member/MemberOf/WorksFor/SubOrgOf descriptors", ids="every reuse pattern"),
        outside=["prefixes longer than %d" % L + ("" if tier == "quick" else " (4 for the transitive-chain assertions and for the prefixes that start with one fixed macro operation)"), "role-taker (Boss) assertions (covered by C15)", "threads"],
        assumptions=["stub: id() contract (see C13); counterexamples replayed with the real id()", "expected relations = closure of the asserted facts under the declared semantics (3 facts per scenario, written out)"],
    )
