"""Harness-owned mapped model for the ORM properties (C04, C05, C07).  Plain dataclasses, identity equality."""
from __future__ import annotations

import enum
from dataclasses import dataclass, field
from datetime import datetime
from typing import List, Optional

from krrood.ormatic.dao import AlternativeMapping


class Color(enum.Enum):
    RED = 1
    GREEN = 2
    BLUE = 3


@dataclass(eq=False)
class Leaf:
    v: int = 5


@dataclass(eq=False)
class SubLeaf(Leaf):
    w: int = 6


@dataclass(eq=False)
class SubSubLeaf(SubLeaf):
    z: int = 7


@dataclass(eq=False)
class UnmappedMiddle(SubLeaf):
    """deliberately NOT part of the mapped classes: DeepLeaf's DAO has to attach to SubLeaf's DAO through it"""

    hidden: int = 1


@dataclass(eq=False)
class DeepLeaf(UnmappedMiddle):
    d: int = 2


@dataclass(eq=False)
class Vec:
    """has an alternative mapping (VecMapped)"""

    x: int = 8


@dataclass(eq=False)
class VecMapped(AlternativeMapping[Vec]):
    x: int = 0

    @classmethod
    def create_instance(cls, obj: Vec):
        return cls(obj.x)

    def create_from_dao(self) -> Vec:
        return Vec(self.x)


@dataclass(eq=False)
class Node:
    tag: int = 9
    leaf: Optional[Leaf] = None
    parent: Optional[Node] = None
    leaves: List[Leaf] = field(default_factory=list)
    vec: Optional[Vec] = None
    vecs: List[Vec] = field(default_factory=list)


@dataclass(eq=False)
class SubNode(Node):
    extra: int = 3


@dataclass(eq=False)
class BackLeaf(Leaf):
    """an element that refers back to the container that holds it"""

    home: Optional[Bag] = None


@dataclass(eq=False)
class Bag:
    """alternatively mapped container: its mapping exposes the relationship under another name than the constructor argument"""

    _items: List[Leaf] = field(default_factory=list)

    @property
    def items(self) -> List[Leaf]:
        return self._items


@dataclass(eq=False)
class BagMapped(AlternativeMapping[Bag]):
    items: List[Leaf] = field(default_factory=list)

    @classmethod
    def create_instance(cls, obj: Bag):
        return cls(obj.items)

    def create_from_dao(self) -> Bag:
        return Bag(self.items)


@dataclass(eq=False)
class LabeledBag(Bag):
    """a normally mapped subclass of an alternatively mapped class; declares relationships of its own"""

    label: int = 11
    spare: Optional[Leaf] = None
    more: List[Leaf] = field(default_factory=list)


@dataclass(eq=False)
class SealedBag(LabeledBag):
    """two levels below the alternatively mapped class"""

    seal: int = 13


@dataclass(eq=False)
class Holder:
    bag: Optional[Bag] = None
    favourite: Optional[Leaf] = None
    others: List[Leaf] = field(default_factory=list)


@dataclass(eq=False)
class Strip:
    """persisted through StripMapped, which builds mapped helper objects on the fly (they are held by nothing else)"""

    values: List[int] = field(default_factory=list)


@dataclass(eq=False)
class StripMapped(AlternativeMapping[Strip]):
    cells: List[Leaf] = field(default_factory=list)

    @classmethod
    def create_instance(cls, obj: Strip):
        return cls([Leaf(v) for v in obj.values])

    def create_from_dao(self) -> Strip:
        return Strip([c.v for c in self.cells])


@dataclass(eq=False)
class Album:
    number: int = 12
    strips: List[Strip] = field(default_factory=list)


@dataclass(eq=False)
class Car:
    """a pair of one-to-one references, neither annotated Optional (the back-reference style of the repository's examples)"""

    plate: int = 15
    engine: Engine = None


@dataclass(eq=False)
class Engine:
    power: int = 16
    car: Car = None


@dataclass(eq=False)
class Shape:
    sides: int = 3


@dataclass(eq=False)
class Circle(Shape):
    """an alternatively mapped subclass of a normally mapped class (stored with its diameter); reached through fields typed Shape"""

    radius: int = 1


@dataclass(eq=False)
class CircleMapped(AlternativeMapping[Circle]):
    sides: int = 0
    diameter: int = 2

    @classmethod
    def create_instance(cls, obj: Circle):
        return cls(obj.sides, 2 * obj.radius)

    def create_from_dao(self) -> Circle:
        return Circle(self.sides, self.diameter // 2)


@dataclass(eq=False)
class Drawing:
    number: int = 14
    main: Optional[Shape] = None
    shapes: List[Shape] = field(default_factory=list)


@dataclass(eq=False)
class Rich:
    """scalars of every supported kind"""

    # the defaults are deliberately not falsy: a value like 0, "", False or [] must survive, not be replaced by the default
    number: int = 1
    opt: Optional[int] = 4
    color: Color = Color.RED
    opt_color: Optional[Color] = Color.BLUE
    when: datetime = datetime(2020, 1, 1)
    names: List[str] = field(default_factory=lambda: ["default"])
    numbers: List[int] = field(default_factory=lambda: [1])
    flag: bool = True
    ratio: float = 1.0
    text: str = "default"
    owner: Optional[Node] = None


CLASSES = [Leaf, SubLeaf, SubSubLeaf, DeepLeaf, BackLeaf, Car, Engine, Vec, Node, SubNode, Rich, Bag, LabeledBag, SealedBag, Holder, Strip, Album, Shape, Circle, Drawing]
ALTERNATIVE_MAPPINGS = [VecMapped, BagMapped, StripMapped, CircleMapped]
