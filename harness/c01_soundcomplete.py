"""C01 -- EQL answers are exactly the satisfying assignments (sound and complete).
   (C02's multiplicity obligations are produced by the same harness, see c02_multiplicity.py)"""
from __future__ import annotations

import itertools

from vlib.core import Case
from vlib.symx import AND, OR, NOT, IMPLIES, IFF, EQ, SUM, B2I, is_sym

from krrood.entity_query_language.entity import entity, set_of, let, and_, or_, not_
from krrood.entity_query_language.quantify_entity import an
from krrood.entity_query_language.failures import NoSolutionFound, MultipleSolutionFound
from krrood.entity_query_language import symbolic as S

from .eqlworld import eql_reset, index_of
from . import eqlshapes as E
from .eqlshapes import World, show, all_vars, shape_vars, features, relabel_lits

PROPERTY = "C01"
LEVEL = "model_checking"


def selections(cond, extra=False):
    fv = [v for v in (shape_vars(cond) if cond is not None else []) if v in E.PVARS]
    sels = []
    if fv:
        sels.append(("entity", (fv[0],)))
        if len(fv) > 1:
            sels.append(("entity", (fv[1],)))
            sels.append(("set_of", (fv[0], fv[1])))
        elif extra:
            other = [u for u in ("y", "z") if u not in all_vars(cond)]
            if other:
                sels.append(("set_of", (fv[0], other[0])))  # a selected variable that no condition mentions
    return sels


def harness(cond, sel, N, value_eq=False, count=False):
    kind, svars = sel
    sel_kid = "x.kid" in svars
    sel_attr = "x.a" in svars
    pv = tuple(v for v in svars if v not in ("x.kid", "x.a"))

    def h(ctx):
        w = World(ctx, cond, pv, N, value_eq=value_eq)
        if sel_kid:
            for i, o in enumerate(w.dom["x"]):
                o.kid = E.Q(ctx.fresh_int("xkid%d" % i))
        ce = w.build(cond) if cond is not None else None
        args = () if ce is None else (ce,)
        x = w.var("x") if "x" in w.vars else None
        xkid = x.kid if sel_kid else None  # one expression object: it is also the key of the result rows
        xa = x.a if sel_attr else None
        sel_exprs = [w.var(v) for v in pv] + ([xkid] if sel_kid else []) + ([xa] if sel_attr else [])
        attr_terms = []
        if kind == "entity":
            q = an(entity(sel_exprs[0], *args))
        else:
            q = an(set_of(sel_exprs, *args))
        rows, bad_rows, exc = [], 0, None
        try:
            for r in q.evaluate():
                if kind == "entity":
                    rows.append((w.index(pv[0], r),))
                else:
                    row = tuple(w.index(v, r[w.var(v)]) for v in pv)
                    if sel_kid:
                        i = row[pv.index("x")]
                        if i < 0 or r[xkid] is not w.dom["x"][i].kid:
                            bad_rows += 1
                    if sel_attr:
                        i = row[pv.index("x")]
                        if i < 0:
                            bad_rows += 1
                        else:
                            attr_terms.append(EQ(r[xa], w.dom["x"][i].a))  # the selected expression applied to the same row's x
                    rows.append(row)
        except (NoSolutionFound, MultipleSolutionFound) as e:
            exc = type(e).__name__
        except Exception as e:
            crash = "%s: %s" % (type(e).__name__, str(e)[:80])
        else:
            crash = None
        if exc is not None:
            crash = None
        # obligations on paths where a variable of the query ranges over an empty domain get their own name, so that
        # the engine's behaviour on empty domains is judged (and listed) separately from everything else
        sfx = "[some-domain-empty]" if any(len(w.dom[u]) == 0 for u in w.vars) else ""
        ctx.observe(rows, exc, crash)
        ctx.note("nonempty", bool(rows))
        v = {}
        if exc is None and crash is not None:
            v["no-exception" + sfx] = False
            return v
        thec = w.the_count(cond) if cond is not None and "the" in features(cond) else []
        if exc is not None:
            v["nested-the-raises-only-without-unique-solution"] = OR([NOT(EQ(c, 1)) for c in thec]) if thec else False
            return v
        pre = AND([EQ(c, 1) for c in thec]) if thec else True
        free = list(dict.fromkeys(list(pv) + [u for u in (shape_vars(cond) if cond is not None else [])]))
        asg = w.assignments(free)
        truth = [w.truth(cond, a) for a in asg]
        proj = [tuple(w.index(u, a[u]) for u in pv) for a in asg]
        v["rows-are-domain-elements" + sfx] = all(i >= 0 for r in rows for i in r)
        v["rows-consistent" + sfx] = AND([bad_rows == 0] + attr_terms)
        if not count:
            rs = set(rows)
            v["sound" + sfx] = IMPLIES(pre, AND([OR([t for t, p in zip(truth, proj) if p == r]) for r in rs])) if rs else True
            v["complete" + sfx] = IMPLIES(pre, AND([IMPLIES(t, p in rs) for t, p in zip(truth, proj)]))
        else:
            cands = sorted(set(proj) | set(rows))
            v["one-result-per-satisfying-assignment" + sfx] = IMPLIES(
                pre, AND([EQ(rows.count(c), SUM([B2I(t) for t, p in zip(truth, proj) if p == c])) for c in cands])
            )
            if kind == "entity" and not value_eq and cond is not None and features(cond) & {"pred", "p2"} and not thec:
                # the same query object evaluated again after the data changed: the predicates are called on the new data
                for u in w.vars:
                    if u in E.PVARS:
                        for i, o in enumerate(w.dom[u]):
                            o.a = ctx.fresh_int("%sa%d'" % (u, i))
                try:
                    rows2 = [(w.index(pv[0], r),) for r in q.evaluate()]
                except Exception as e:
                    ctx.observe("second evaluation raised %s" % type(e).__name__)
                    v["no-exception-when-evaluated-again" + sfx] = False
                    return v
                truth2 = [w.truth(cond, a) for a in asg]
                cands2 = sorted(set(proj) | set(rows2))
                ctx.observe("again", rows2)
                v["one-result-per-satisfying-assignment-after-the-data-changed" + sfx] = AND(
                    [EQ(rows2.count(c), SUM([B2I(t) for t, p in zip(truth2, proj) if p == c])) for c in cands2])
        return v

    return h


# ---------------------------------------------------------------------------------------------
def shape_list(tier):
    """[(cond, core?)]"""
    x, y = "x", "y"
    A = lambda v, op="==": ("cmp", op, ("a", v), ("lit", 0))
    X = [A(x), A(x, ">")]
    Y = [A(y), A(y, "<")]
    XY = [("cmp", "==", ("a", x), ("a", y)), ("cmp", "<", ("a", x), ("a", y))]
    out = []

    def add(c, core=True):
        out.append((relabel_lits(c), core))

    for a in E.atoms([x, y], 2):
        add(a)
        add(("not", a))
    add(("the", x, 0))
    add(("not", ("the", x, 0)), False)
    pair_sets = [(X, X), (X, Y), (X, XY), (XY, Y), (XY, XY)]
    for L, R in pair_sets:
        for l, r in itertools.product(L, R):
            if l == r:
                continue
            for op in ("and", "or"):
                core = (l in (X[0], XY[0])) and (r in (X[1], Y[0], XY[1], X[0]))
                add((op, l, r), core)
                add(("not", (op, l, r)), core)
    # predicates (a call of a Predicate class / HasType) next to comparisons over the same variable
    for p in (("pred", x, 0), ("isa", x)):
        for op in ("and", "or"):
            add((op, p, X[0]), op == "or")
            add((op, X[1], p), False)
            add((op, ("not", p), X[1]), False)
            add(("not", (op, p, X[0])), False)
    add(("or", ("pred", x, 0), ("isa", x)), False)
    add(("and", ("or", ("pred", x, 0), X[0]), Y[0]), False)
    # a partially ordered attribute under negation inside and_/or_ (De Morgan) and next to its own negation
    S1 = ("cmp", "<", ("s", x), ("slit", 1))
    S2 = ("cmp", "<=", ("s", x), ("s", y))
    for sa in (S1, S2):
        add(("and", ("not", sa), X[1]), sa is S1)
        add(("not", ("and", sa, X[0])), False)
        add(("or", sa, ("not", sa)), False)
        add(("not", ("or", sa, X[0])), False)
    # one attribute expression node used as an operand of comparisons and, on its own, as a condition (its truth value)
    SA = ("sa", x)
    T = ("truthy", SA)
    G = ("cmp", ">=", SA, ("lit", 0))
    L = ("cmp", "<", SA, ("lit", 0))
    add(T, False)
    add(("and", G, T))
    add(("and", T, G), False)
    add(("and", ("and", G, L), T), False)
    add(("or", ("and", G, T), ("cmp", "==", SA, ("lit", 0))), False)
    add(("and", ("cmp", "==", SA, ("a", y)), ("truthy", ("sa", y))), False)
    add(("and", T, ("cmp", "==", SA, ("a", y))), False)
    add(("not", ("cmp", "==", ("fnv", x), ("lit", 0))), False)
    add(("and", ("cmp", "<=", ("fnv", x), ("lit", 0)), X[1]), False)
    # conjunction chains inside an else-if, and an else-if whose sides mention the same variables in another order
    B_ = lambda v, op, i=0: ("cmp", op, ("b", v), ("lit", i))
    add(("or", ("and", ("and", X[1], B_(x, ">")), ("cmp", "<=", ("a", x), ("b", x))), X[0]))
    add(("or", X[0], ("and", ("and", X[1], B_(x, ">")), ("cmp", "<=", ("a", x), ("b", x)))), False)
    add(("or", ("cmp", ">", ("a", x), ("a", y)), ("cmp", ">", ("b", y), ("b", x))))
    add(("not", ("and", ("cmp", ">", ("a", x), ("a", y)), ("cmp", ">", ("b", y), ("b", x)))), False)
    # depth 3
    small = [(X[0], X[1]), (X[0], Y[0]), (XY[0], X[1]), (X[1], XY[1])]
    for (l, r) in small:
        for c in (X[1], Y[1], XY[0]):
            if c in (l, r):
                continue
            for core, s in [
                (True, ("and", ("or", l, r), c)),
                (True, ("or", ("and", l, r), c)),
                (False, ("and", c, ("or", l, r))),
                (False, ("or", c, ("and", l, r))),
                (True, ("and", ("not", l), ("or", r, c))),
                (False, ("or", ("not", l), ("and", r, c))),
                (False, ("not", ("and", ("or", l, r), c))),
                (False, ("not", ("or", ("and", l, r), c))),
                (False, ("or", ("or", l, r), c)),
                ((l, r, c) == (X[0], Y[0], XY[0]), ("not", ("or", ("or", l, r), c))),  # a negated disjunction of three with mixed variable sets
                (False, ("and", ("and", l, r), ("not", c))),
            ]:
                add(s, core and (l, r) in small[:2])
    # quantifiers
    for qn in ("exists", "forall"):
        for body in (XY[0], XY[1], ("and", XY[1], Y[0]), ("or", XY[0], Y[0]), Y[0], ("not", XY[0])):
            add((qn, y, body), body in (XY[0], XY[1], Y[0]) or (qn == "forall" and body == ("or", XY[0], Y[0])))
            add(("not", (qn, y, body)), body in (XY[1],))
            add(("and", X[1], (qn, y, body)), body in (XY[0],))
        add((qn, y, ("cmp", "<=", ("a", "z"), ("a", y))), False)  # free variable z only under the quantifier
        # a disjunction under the quantifier whose sides mention different variables (one side does not bind x)
        add((qn, y, ("or", X[0], Y[0])), True)
        add((qn, y, ("or", Y[0], XY[1])), qn == "forall")
    add(("exists", "w", ("has", x, "w")))
    add(("forall", "w", ("has", x, "w")))
    add(("and", ("has", x, "w"), ("cmp", ">", ("a", x), ("lit", 0))), False)
    add(("exists", y, ("exists", "z", ("and", XY[1], ("cmp", "<", ("a", y), ("a", "z"))))), False)
    # a disjunction whose left side is a quantified condition and whose right side is over a subset of its variables
    add(("or", ("exists", y, XY[0]), X[1]))
    add(("or", ("forall", y, XY[1]), X[0]), False)
    add(("or", X[1], ("exists", y, XY[0])), False)
    # quantifier alternation: the witness of the inner quantifier is found anew for every value of the outer variable
    ZY = ("cmp", "==", ("a", "z"), ("a", y))
    add(("and", X[1], ("forall", y, ("exists", "z", ZY))))
    add(("forall", y, ("exists", "z", ("and", ZY, ("cmp", ">=", ("a", "z"), ("a", x))))), False)
    add(("exists", y, ("forall", "z", ("and", ("cmp", ">=", ("a", "z"), ("a", y)), ("cmp", ">=", ("a", y), ("a", x))))), False)
    return out


def make_cases(tier, count=False, fragment=None):
    N = 2 if tier == "quick" else 3
    cs = []
    seen = set()
    for cond, core in shape_list(tier):
        if fragment is not None and not fragment(cond):
            continue
        for sel in selections(cond, extra=core):
            for veq in (False, True):
                f = features(cond)
                if veq and (f & {"kidv", "val0", "m", "p2", "the", "s", "t"} or not core):
                    continue
                name = "%s(%s|%s)%s" % (sel[0], ",".join(sel[1]), show(cond), "|value-eq" if veq else "")
                if name in seen:
                    continue
                seen.add(name)
                cs.append(Case(name + "|N<=%d" % N, harness(cond, sel, N, veq, count), key=name, reset=eql_reset, timeout=150 if tier == "quick" else 600,
                               max_paths=30000 if tier == "quick" else 200000, core=core, validate=1, meta=dict(N=N), cex_grace=10**9))
    if not count:
        for sel in [("entity", ("x",)), ("set_of", ("x", "y")), ("set_of", ("x", "x.kid")), ("set_of", ("x", "x.a"))]:
            name = "%s(%s|true)" % (sel[0], ",".join(sel[1]))
            cs.append(Case(name + "|N<=%d" % N, harness(None, sel, N), key=name, reset=eql_reset, validate=1, meta=dict(N=N)))
        cond = relabel_lits(("cmp", ">", ("a", "x"), ("lit", 0)))
        for extra_sel in ("x.kid", "x.a"):
            name = "set_of(x,%s|%s)" % (extra_sel, show(cond))
            cs.append(Case(name + "|N<=%d" % N, harness(cond, ("set_of", ("x", extra_sel)), N), key=name, reset=eql_reset, validate=1))
        cond2 = relabel_lits(("or", ("cmp", "==", ("a", "x"), ("lit", 0)), ("cmp", "<", ("a", "x"), ("a", "y"))))
        name = "set_of(x,x.a|%s)" % show(cond2)
        cs.append(Case(name + "|N<=%d" % N, harness(cond2, ("set_of", ("x", "x.a")), N), key=name, reset=eql_reset, validate=1, cex_grace=10**9))
    return cs



# ---------------------------------------------------------------------------------------------
# a variable over plain values (ints): the variable itself is an operand of comparisons and, on its own, a condition
# ---------------------------------------------------------------------------------------------
INT_SHAPES = {
    "n": (lambda n, m, k: (n,), lambda v, u, k: NOT(EQ(v, 0))),
    "and(n>=k0,n)": (lambda n, m, k: (and_(n >= k[0], n),), lambda v, u, k: AND(v >= k[0], NOT(EQ(v, 0)))),
    "and(n,n>=k0)": (lambda n, m, k: (and_(n, n >= k[0]),), lambda v, u, k: AND(v >= k[0], NOT(EQ(v, 0)))),
    "n>=k0,n<k1,n": (lambda n, m, k: (n >= k[0], n < k[1], n), lambda v, u, k: AND(v >= k[0], v < k[1], NOT(EQ(v, 0)))),
    "or(and(n>=k0,n),n==k1)": (lambda n, m, k: (or_(and_(n >= k[0], n), n == k[1]),), lambda v, u, k: OR(AND(v >= k[0], NOT(EQ(v, 0))), EQ(v, k[1]))),
    "not(n)": (lambda n, m, k: (not_(n),), lambda v, u, k: EQ(v, 0)),
    "and(n==m,m)": (lambda n, m, k: (and_(n == m, m),), lambda v, u, k: AND(EQ(v, u), NOT(EQ(u, 0)))),
    "and(m,n==m)": (lambda n, m, k: (and_(m, n == m),), lambda v, u, k: AND(EQ(v, u), NOT(EQ(u, 0)))),
    "n==k0": (lambda n, m, k: (n == k[0],), lambda v, u, k: EQ(v, k[0])),
}


class Num(int):
    """an int that is an object of its own (CPython shares small int objects; domain elements are told apart by identity)"""


def _num(v):
    return v if is_sym(v) else Num(v)


def int_harness(name, N):
    build, truth = INT_SHAPES[name]
    two = "m" in name

    def h(ctx):
        nv = ctx.choice("nn", N + 1)
        vals = [_num(ctx.fresh_int("n%d" % i)) for i in range(nv)]
        mvals = [_num(ctx.fresh_int("m%d" % i)) for i in range(ctx.choice("nm", N + 1))] if two else [0]
        k = [ctx.fresh_int("k%d" % i) for i in range(2)]
        n = let(object, vals, name="n")  # (object: the symbolic ints of the engine are not instances of int)
        m = let(object, mvals, name="m") if two else None
        rows, crash = [], None
        try:
            for r in an(entity(n, *build(n, m, k))).evaluate():
                rows.append(index_of(vals, r))
        except Exception as e:
            crash = "%s: %s" % (type(e).__name__, str(e)[:80])
        sfx = "[some-domain-empty]" if (not vals or not mvals) else ""
        ctx.observe(rows, crash)
        ctx.note("nonempty", bool(rows))
        v = {}
        if crash is not None:
            v["no-exception" + sfx] = False
            return v
        t = [OR([truth(vv, u, k) for u in mvals]) for vv in vals]
        v["rows-are-domain-elements" + sfx] = all(i >= 0 for i in rows)
        v["sound" + sfx] = AND([t[i] for i in set(rows) if i >= 0]) if rows else True
        v["complete" + sfx] = AND([IMPLIES(t[i], i in rows) for i in range(len(vals))])
        return v

    return h


# ---- domains of plain Python values (the elements themselves are concrete; which ones and the literal are symbolic) ----
PLAIN = [-2, -1, 0, 1, True, False, 2, 2**61 - 1]  # contains distinct objects that are equal and / or hash alike (floats: not with symbolic literals)


def plain_harness(kind, n_elems):
    def h(ctx):
        picks = []
        for i in range(n_elems):
            lo = (picks[-1] + 1) if picks else 0
            if lo >= len(PLAIN):
                ctx.assume(False)
            picks.append(lo + ctx.choice("e%d" % i, len(PLAIN) - lo))  # strictly increasing: distinct pool entries
        dom = [PLAIN[i] for i in picks]
        k = ctx.fresh_int("k")
        n = let(object, dom, name="n")
        if kind == "n<=k":
            cond, truth = (n <= k), (lambda v: v <= k)
        elif kind == "not(n<k)":
            cond, truth = not_(n < k), (lambda v: NOT(v < k))
        else:  # every element
            cond, truth = None, (lambda v: True)
        rows, crash = [], None
        try:
            for r in an(entity(n, *(() if cond is None else (cond,)))).evaluate():
                rows.append(next((j for j, d in enumerate(dom) if d is r), -1))
        except Exception as e:
            crash = "%s: %s" % (type(e).__name__, str(e)[:80])
        ctx.observe([repr(d) for d in dom], rows, crash)
        ctx.note("nonempty", bool(rows))
        if crash is not None:
            return {"no-exception": False}
        t = [truth(d) for d in dom]
        v = {"rows-are-domain-elements": all(j >= 0 for j in rows)}
        v["sound"] = AND([t[j] for j in set(rows) if j >= 0]) if rows else True
        v["complete"] = AND([IMPLIES(t[j], j in rows) for j in range(len(dom))])
        v["each-element-once"] = len(set(rows)) == len(rows)
        return v

    return h


def cases(tier, seed):
    from vlib.core import select_cases

    N = 2 if tier == "quick" else 3
    ints = [Case("entity(n:int|%s)|N<=%d" % (nm, N), int_harness(nm, N), key="entity(n:int|%s)" % nm, reset=eql_reset, validate=1, core=True) for nm in INT_SHAPES]
    return select_cases(make_cases(tier), tier, seed, extra_quick=40) + ints + plain_cases(tier)


def plain_cases(tier):
    return [Case("entity(n:plain values|%s)|%d elements" % (kd, m), plain_harness(kd, m), key="entity(n:plain|%s|%d)" % (kd, m), reset=eql_reset, validate=1, core=True)
            for kd in ("all", "n<=k", "not(n<k)") for m in ((2, 3) if tier != "quick" or kd != "not(n<k)" else (2,))]


def describe(tier):
    N = 2 if tier == "quick" else 3
    return dict(
        rule="query shapes from the grammar cond ::= atom | and_ | or_ | not_ | exists | for_all (depth <= 3) over variables x, y, z (P objects) and w (Q pool), "
        "atoms: comparisons of attributes / attribute chains / indexed / called values with symbolic literals or other variables' attributes, in_, contains, "
        "HasType, a Predicate subclass, a nested the(...) sub-query, an expression on its own as a condition (its truth value; one shared attribute node, or a variable over plain ints), order comparisons over a partially ordered attribute (sets) and a sequence-valued attribute (tuples, lexicographic), variables over domains of plain values drawn from a pool with equal / equally hashing distinct objects (-1/-2, 1/True, 0/False, 2**61-1); each with every selection (entity(x), entity(y), set_of([x,y]), unmentioned selected "
        "variable, set_of([x, x.kid])); identity-eq and value-eq dataclasses; quick = core set + seeded slice, thorough = all; "
        "non-trivial = >= 2 feasible paths and a non-empty result on some path",
        bounds=dict(objects_per_domain="0..%d (symbolic)" % N, attribute_values_and_literals="unbounded integers", depth="<= 3", variables="<= 3 + quantified"),
        outside=["quantifying over an expression of a SELECTED variable (for_all(flatten(x.items), ...) with x selected): the engine quantifies the variables of the quantified expression universally, as the repository's own tests use it (for_all(cabinets.container, ...)); the per-x reading gives other rows and the property does not say which is meant", "strings/floats as attribute values", "== between two collections", "attribute access on None", "more than %d objects per domain" % N],
        assumptions=["unselected free variables are read existentially (property statement)", "result order is not asserted"],
    )
