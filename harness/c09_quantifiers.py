"""C09 -- result quantifiers enforce exactly the stated solution count."""
from __future__ import annotations

import time

from vlib import core
from vlib.core import Case
from vlib.symx import AND, OR, NOT, IMPLIES, IFF, EQ, SUM, B2I, is_sym

from krrood.entity_query_language.entity import entity, let, and_
from krrood.entity_query_language.quantify_entity import an, the
from krrood.entity_query_language.result_quantification_constraint import Exactly, AtLeast, AtMost, Range
from krrood.entity_query_language.failures import (
    GreaterThanExpectedNumberOfSolutions,
    LessThanExpectedNumberOfSolutions,
    NoSolutionFound,
    MultipleSolutionFound,
    NegativeQuantificationError,
    QuantificationConsistencyError,
)

from .eqlworld import P, eql_reset, index_of

PROPERTY = "C09"
LEVEL = "model_checking"

KINDS = ["exactly", "atleast", "atmost", "range"]


def make_constraint(kind, lo, hi):
    if kind == "exactly":
        return Exactly(lo), lo, lo
    if kind == "atleast":
        return AtLeast(lo), lo, None
    if kind == "atmost":
        return AtMost(hi), None, hi
    return Range(AtLeast(lo), AtMost(hi)), lo, hi


def spec(n, lower, upper, done):
    """reference: 'greater' iff n > upper; else 'less' iff done and n < lower; else None  (as z3/py terms)"""
    greater = (n > upper) if upper is not None else False
    less = AND(NOT(greater), done, (n < lower)) if lower is not None else False
    return greater, less


# ---- leaf obligations: unbounded integers -------------------------------------------------
def leaf(kind):
    def h(ctx):
        lo = ctx.fresh_int("lo", 0)
        hi = ctx.fresh_int("hi", 0)
        if kind == "range":
            ctx.assume(hi >= lo)
        n = ctx.fresh_int("n", 0)
        done = ctx.fresh_bool("done")
        c, lower, upper = make_constraint(kind, lo, hi)
        exc = None
        try:
            c.assert_satisfaction(n, None, done)
        except GreaterThanExpectedNumberOfSolutions:
            exc = "greater"
        except LessThanExpectedNumberOfSolutions:
            exc = "less"
        ctx.observe(exc)
        ctx.note("nonempty", exc is not None)
        greater, less = spec(n, lower, upper, done)
        if exc == "greater":
            return {"outcome": greater}
        if exc == "less":
            return {"outcome": less}
        return {"outcome": AND(NOT(greater), NOT(less))}

    return h


def ctor(kind):
    def h(ctx):
        lo = ctx.fresh_int("lo")
        hi = ctx.fresh_int("hi")
        exc = None
        try:
            make_constraint(kind, lo, hi)
        except NegativeQuantificationError:
            exc = "negative"
        except QuantificationConsistencyError:
            exc = "inconsistent"
        ctx.observe(exc)
        ctx.note("nonempty", exc is not None)
        used_lo = kind in ("exactly", "atleast", "range")
        used_hi = kind in ("atmost", "range")
        neg = OR((lo < 0) if used_lo else False, (hi < 0) if used_hi else False)
        inc = AND(NOT(neg), (hi < lo)) if kind == "range" else False
        if exc == "negative":
            return {"ctor": neg}
        if exc == "inconsistent":
            return {"ctor": inc}
        return {"ctor": AND(NOT(neg), NOT(inc))}

    return h


# ---- integration: the number of solutions is data dependent ------------------------------
def integ(kind, N, overlapping=False, via_match=False):
    def h(ctx):
        n = ctx.choice("n", N + 1)
        if via_match:
            from . import c11_match as C11
            from krrood.entity_query_language.match import entity_matching

            C11.reset()
            objs = [C11.MP(a=ctx.fresh_int("a%d" % i)) for i in range(n)]
        else:
            objs = [P(ctx.fresh_int("a%d" % i)) for i in range(n)]
        k = ctx.fresh_int("k")
        lo = ctx.fresh_int("lo", 0)
        hi = ctx.fresh_int("hi", 0)
        if kind == "range":
            ctx.assume(hi >= lo)
        c, lower, upper = make_constraint(kind, lo, hi)
        if via_match:
            # the query written as a match pattern (a == k instead of a > k)
            q = an(entity_matching(C11.MP, objs)(a=k), quantification=c)
        else:
            x = let(P, objs, name="x")
            q = an(entity(x, x.a > k), quantification=c)
        def advance(it, got):
            """one step; returns None while running, else the way the evaluation ended"""
            try:
                got.append(index_of(objs, next(it)))
                return None
            except StopIteration:
                return "done"
            except GreaterThanExpectedNumberOfSolutions:
                return "greater"
            except LessThanExpectedNumberOfSolutions:
                return "less"

        runs = []
        if not overlapping:
            it, got, end = q.evaluate(), [], None
            while end is None:
                end = advance(it, got)
            runs.append(("", got, end))
        else:
            # two evaluations of the same query object alive at once, advanced alternately: each counts its own solutions
            its = [q.evaluate(), q.evaluate()]
            gots, ends = [[], []], [None, None]
            while ends[0] is None or ends[1] is None:
                for j in (0, 1):
                    if ends[j] is None:
                        ends[j] = advance(its[j], gots[j])
            runs = [("first:", gots[0], ends[0]), ("second:", gots[1], ends[1])]
        ctx.observe(n, [(g, e) for _, g, e in runs])
        ctx.note("nonempty", any(g for _, g, e in runs))
        sat = [EQ(o.a, k) if via_match else (o.a > k) for o in objs]
        count = SUM(B2I(s) for s in sat)
        greater, less = spec(count, lower, upper, True)
        v = {}
        for pre, got, end in runs:
            exc = None if end == "done" else end
            v[pre + "only-solutions"] = AND([sat[i] for i in got]) if got else True
            v[pre + "no-duplicates"] = len(set(got)) == len(got)
            if exc == "greater":
                v[pre + "outcome"] = greater
                v[pre + "never-more-than-upper"] = len(got) <= upper
            elif exc == "less":
                v[pre + "outcome"] = less
                v[pre + "all-yielded"] = AND([IMPLIES(sat[i], i in got) for i in range(n)])
            else:
                v[pre + "outcome"] = AND(NOT(greater), NOT(less))
                v[pre + "all-yielded"] = AND([IMPLIES(sat[i], i in got) for i in range(n)])
        return v

    return h


class FalsyP(P):
    """a domain element whose truth value is False (e.g. an empty container)"""

    def __bool__(self):
        return False


def the_case(N, falsy=False, value_eq=False, again=False):
    def h(ctx):
        n = ctx.choice("n", N + 1)
        if value_eq:
            from .eqlworld import VP

            objs = [VP(ctx.fresh_int("a%d" % i)) for i in range(n)]  # distinct objects that may compare equal: each is a solution of its own
        else:
            objs = [(FalsyP if falsy and ctx.flag("falsy%d" % i) else P)(ctx.fresh_int("a%d" % i)) for i in range(n)]
        k = ctx.fresh_int("k")
        x = let(type(objs[0]) if (value_eq and objs) else P, objs, name="x")
        q = the(entity(x, x.a > k))
        got, exc = None, None
        try:
            got = index_of(objs, q.evaluate())
        except NoSolutionFound:
            exc = "none"
        except MultipleSolutionFound:
            exc = "multiple"
        ctx.observe(n, got, exc)
        ctx.note("nonempty", got is not None)

        def judge(got, exc):
            sat = [o.a > k for o in objs]
            count = SUM(B2I(s) for s in sat)
            if exc == "none":
                return count == 0
            if exc == "multiple":
                return count >= 2
            return AND(count == 1, sat[got] if got >= 0 else False)

        v = {"outcome": judge(got, exc)}
        if again:
            # the same query object evaluated again after the data changed: the solutions are counted anew
            for i, o in enumerate(objs):
                o.a = ctx.fresh_int("a%d'" % i)
            got2, exc2 = None, None
            try:
                got2 = index_of(objs, q.evaluate())
            except NoSolutionFound:
                exc2 = "none"
            except MultipleSolutionFound:
                exc2 = "multiple"
            ctx.observe("again", got2, exc2)
            v["outcome-when-evaluated-again-after-the-data-changed"] = judge(got2, exc2)
        return v

    return h


def cases(tier, seed):
    N = 4 if tier == "quick" else 7
    cs = []
    for k in KINDS:
        cs.append(Case("leaf:%s" % k, leaf(k), reset=eql_reset, meta=dict(ints="unbounded")))
        cs.append(Case("ctor:%s" % k, ctor(k), reset=eql_reset, meta=dict(ints="unbounded")))
        cs.append(Case("an:%s|N<=%d" % (k, N), integ(k, N), key="an:%s" % k, reset=eql_reset, timeout=600, max_paths=200000, meta=dict(N=N)))
        M_ = 3 if tier == "quick" else 5
        cs.append(Case("an:%s|two overlapping evaluations|N<=%d" % (k, M_), integ(k, M_, overlapping=True), key="an:%s|overlapping" % k, reset=eql_reset, timeout=600, max_paths=200000, meta=dict(N=M_)))
    cs.append(Case("the|N<=%d" % N, the_case(N), key="the", reset=eql_reset, timeout=600, meta=dict(N=N)))
    cs.append(Case("the|evaluated again after the data changed|N<=3", the_case(3, again=True), key="the|again", reset=eql_reset, timeout=600, meta=dict(N=3)))
    for k in ("atleast", "atmost", "exactly"):
        cs.append(Case("an:%s|written as a match pattern|N<=3" % k, integ(k, 3, via_match=True), key="an:%s|match" % k, reset=eql_reset, timeout=600, max_paths=200000, meta=dict(N=3)))
    cs.append(Case("the|value-equal domain objects|N<=3", the_case(3, value_eq=True), key="the|value-eq", reset=eql_reset, timeout=600, meta=dict(N=3)))
    cs.append(Case("the|some elements are falsy objects|N<=3", the_case(3, falsy=True), key="the|falsy", reset=eql_reset, timeout=600, meta=dict(N=3)))
    return cs


def describe(tier):
    N = 4 if tier == "quick" else 7
    return dict(
        rule="one case per constraint class x {leaf assert_satisfaction, constructor, an(...) integration, an(...) with two evaluations of the same query object advanced alternately} + the(); "
        "a case is non-trivial when its exploration has >= 2 feasible paths and some path yields a result or raises",
        bounds=dict(domain_size="0..%d objects (symbolic)" % N, bounds_and_counts="unbounded integers (z3 Int)", attribute_values="unbounded integers"),
        outside=["domains larger than %d objects in the integration cases" % N, "non-integer bounds"],
        assumptions=[
            "leaf cases call assert_satisfaction with quantifier=None (only used in the error message)",
            "integration query is x.a > k over one variable; absolute correctness of conditions is C01",
        ],
    )
