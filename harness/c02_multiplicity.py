"""C02 -- no duplicated or dropped solutions in conjunctive / else-if queries (one result per satisfying assignment)."""
from __future__ import annotations

from vlib.core import Case, select_cases
from vlib.symx import AND, OR, NOT, IMPLIES, IFF, EQ, SUM, B2I

from krrood.entity_query_language.entity import entity, set_of
from krrood.entity_query_language.quantify_entity import an, the
from krrood.entity_query_language.failures import NoSolutionFound, MultipleSolutionFound
from krrood.entity_query_language import symbolic as S

from .eqlworld import eql_reset
from . import eqlshapes as E
from .eqlshapes import World, show, is_elseif_fragment, shape_vars
from . import c01_soundcomplete as C01

PROPERTY = "C02"
LEVEL = "model_checking"


def built_or_nodes_are_elseif(cond):
    """the fragment is defined on the built tree: every or_ node must have become an ElseIf"""
    return is_elseif_fragment(cond)


def the_harness(cond, N):
    """the(entity(x, cond)) succeeds iff exactly one assignment of the query's variables satisfies cond"""

    def h(ctx):
        w = World(ctx, cond, ("x",), N)
        q = the(entity(w.var("x"), w.build(cond)))
        got, exc = None, None
        try:
            got = w.index("x", q.evaluate())
        except NoSolutionFound:
            exc = "none"
        except MultipleSolutionFound:
            exc = "multiple"
        ctx.observe(got, exc)
        ctx.note("nonempty", got is not None)
        free = list(dict.fromkeys(["x"] + shape_vars(cond)))
        asg = w.assignments(free)
        truth = [w.truth(cond, a) for a in asg]
        n = SUM([B2I(t) for t in truth])
        sfx = "[some-domain-empty]" if any(len(w.dom[u]) == 0 for u in w.vars) else ""
        v = {}
        if exc == "none":
            v["the-none-iff-zero" + sfx] = EQ(n, 0)
        elif exc == "multiple":
            v["the-multiple-iff-several" + sfx] = n >= 2
        else:
            v["the-returns-iff-one" + sfx] = AND(EQ(n, 1), OR([AND(t, w.index("x", a["x"]) == got) for t, a in zip(truth, asg)]))
        # a count over the same variables afterwards (the() may have stopped early) still sees every solution
        rows = [w.index("x", r) for r in an(entity(w.var("x"), w.build(cond))).evaluate()]
        cands = sorted(set(range(len(w.dom["x"]))) | set(rows))
        v["count-after-the" + sfx] = AND([EQ(rows.count(c), SUM([B2I(t) for t, a in zip(truth, asg) if w.index("x", a["x"]) == c])) for c in cands])
        return v

    return h


def all_cases(tier):
    N = 2 if tier == "quick" else 3
    cs = C01.make_cases(tier, count=True, fragment=is_elseif_fragment)
    seen = set()
    for cond, core in C01.shape_list(tier):
        if not is_elseif_fragment(cond) or not shape_vars(cond) or shape_vars(cond)[0] != "x":
            continue
        name = "the(x|%s)" % show(cond)
        if name in seen:
            continue
        seen.add(name)
        cs.append(Case(name + "|N<=%d" % N, the_harness(cond, N), key=name, reset=eql_reset, core=core, validate=1,
                       timeout=150 if tier == "quick" else 600, max_paths=30000 if tier == "quick" else 200000))
    return cs


def cases(tier, seed):
    # + variables over plain values (each element of the domain exactly once)
    return select_cases(all_cases(tier), tier, seed, extra_quick=40) + C01.plain_cases(tier)


def describe(tier):
    d = C01.describe(tier)
    d["rule"] = ("the C01 shapes restricted to C02's fragment (negation only on atoms, and_, or_ only between conditions over the same variables), "
                 "each with every selection: the number of times a row is returned equals the number of satisfying assignments of the query's "
                 "variables that project onto it (z3 Sum of If); plus the(entity(x, cond)): returns iff exactly one satisfying assignment, "
                 "NoSolutionFound iff none, MultipleSolutionFound iff several; " + d["rule"].split("; quick")[-1])
    return d
