"""C03 -- evaluations are repeatable and do not interfere with each other."""
from __future__ import annotations

from dataclasses import dataclass
from typing import Any

from vlib.core import Case
from vlib.symx import AND, OR, NOT, IMPLIES, IFF, EQ, SUM, B2I

from krrood.entity_query_language.entity import entity, let, and_, or_, not_, set_of, exists, for_all, inference
from krrood.entity_query_language.quantify_entity import an, the
from krrood.entity_query_language.conclusion import Add
from krrood.entity_query_language.rule import refinement, alternative

from .eqlworld import P, eql_reset, index_of

PROPERTY = "C03"
LEVEL = "model_checking"


@dataclass(eq=False)
class RV:
    src: Any = None
    val: Any = None


@dataclass(eq=False)
class RV1(RV):
    pass


@dataclass(eq=False)
class RV2(RV):
    pass


# ---------------------------------------------------------------------------------------------
# scenario families.  A family builds, from the same objects, a list of query objects (possibly sharing variables or
# sub-expressions) and, for the reference, a function that builds a *fresh* structurally identical copy of query i.
# A result is normalised to plain data by `norm`.
# ---------------------------------------------------------------------------------------------
def fam_one_query(xs, ys, k, shared):
    def mk():
        x = let(P, xs, name="x")
        return an(entity(x, x.a > k[0]))
    q = mk()
    return [q, q], [mk, mk], lambda r: (index_of(xs, r),)


def fam_two_var_query(xs, ys, k, shared):
    def mk():
        x = let(P, xs, name="x"); y = let(P, ys, name="y")
        return an(set_of([x, y], x.a < y.a))
    q = mk()
    def norm(r):
        vals = list(r.data.values())
        return tuple(index_of(xs + ys, v.value if hasattr(v, "value") else v) for v in vals)
    return [q, q], [mk, mk], norm


def fam_shared_variable(xs, ys, k, shared):
    x = let(P, xs, name="x")
    q0 = an(entity(x, x.a > k[0]))
    q1 = an(entity(x, x.b > k[1]))
    def mk0():
        x_ = let(P, xs, name="x"); return an(entity(x_, x_.a > k[0]))
    def mk1():
        x_ = let(P, xs, name="x"); return an(entity(x_, x_.b > k[1]))
    return [q0, q1], [mk0, mk1], lambda r: (index_of(xs, r),)


def fam_shared_lazy_variable(xs, ys, k, shared):
    """the shared variable's domain is a generator: it is pulled lazily and cached while both evaluations are alive"""
    x = let(P, (p for p in xs), name="x")
    q0 = an(entity(x, x.a > k[0]))
    q1 = an(entity(x, x.b > k[1]))
    def mk0():
        x_ = let(P, (p for p in xs), name="x"); return an(entity(x_, x_.a > k[0]))
    def mk1():
        x_ = let(P, (p for p in xs), name="x"); return an(entity(x_, x_.b > k[1]))
    return [q0, q1], [mk0, mk1], lambda r: (index_of(xs, r),)


def fam_shared_attribute_two_roles(xs, ys, k, shared):
    """one attribute expression object used on its own as a condition in one query and as an operand in another"""
    x = let(P, xs, name="x")
    d = x.a
    q0 = an(entity(x, d))
    q1 = an(entity(x, d == k[0]))
    def mk0():
        x_ = let(P, xs, name="x"); return an(entity(x_, x_.a))
    def mk1():
        x_ = let(P, xs, name="x"); return an(entity(x_, x_.a == k[0]))
    return [q0, q1], [mk0, mk1], lambda r: (index_of(xs, r),)


def fam_empty_domain(xs, ys, k, shared):
    """a variable whose domain is empty, evaluated more than once"""
    def mk():
        x = let(P, (p for p in xs[:0]), name="x"); y = let(P, ys, name="y")
        return an(set_of([x, y], x.a < y.a))
    q = mk()
    def norm(r):
        return tuple(index_of(xs + ys, v.value if hasattr(v, "value") else v) for v in r.data.values())
    return [q, q], [mk, mk], norm


def fam_shared_subexpression(xs, ys, k, shared):
    x = let(P, xs, name="x")
    c = x.a > k[0]
    q0 = an(entity(x, and_(c, x.b > k[1])))
    q1 = an(entity(x, or_(c, x.b < k[1])))
    def mk0():
        x_ = let(P, xs, name="x"); return an(entity(x_, and_(x_.a > k[0], x_.b > k[1])))
    def mk1():
        x_ = let(P, xs, name="x"); return an(entity(x_, or_(x_.a > k[0], x_.b < k[1])))
    return [q0, q1], [mk0, mk1], lambda r: (index_of(xs, r),)


def fam_exists(xs, ys, k, shared):
    def mk():
        x = let(P, xs, name="x"); y = let(P, ys, name="y")
        return an(entity(x, exists(y, x.a == y.a)))
    q = mk()
    return [q, q], [mk, mk], lambda r: (index_of(xs, r),)


def fam_forall(xs, ys, k, shared):
    def mk():
        x = let(P, xs, name="x"); y = let(P, ys, name="y")
        return an(entity(x, for_all(y, x.a <= y.a)))
    q = mk()
    return [q, q], [mk, mk], lambda r: (index_of(xs, r),)


def fam_the_then_an(xs, ys, k, shared):
    x = let(P, xs, name="x")
    q0 = the(entity(x, x.a > k[0]))
    q1 = an(entity(x, x.a > k[0]))
    def mk0():
        x_ = let(P, xs, name="x"); return the(entity(x_, x_.a > k[0]))
    def mk1():
        x_ = let(P, xs, name="x"); return an(entity(x_, x_.a > k[0]))
    return [q0, q1], [mk0, mk1], lambda r: (index_of(xs, r),)


def fam_rule(xs, ys, k, shared):
    def mk():
        x = let(P, xs, name="x")
        views = inference(RV)()
        q = an(entity(views, x.a > k[0]))
        with q:
            Add(views, inference(RV1)(src=x, val=x.a))
        return q
    q = mk()
    return [q, q], [mk, mk], lambda r: (index_of(xs, r.src), type(r).__name__)


def fam_rule_refinement(xs, ys, k, shared):
    def mk():
        x = let(P, xs, name="x")
        views = inference(RV)()
        q = an(entity(views, x.a > k[0]))
        with q:
            Add(views, inference(RV1)(src=x, val=x.a))
            with refinement(x.b > k[1]):
                Add(views, inference(RV2)(src=x, val=x.a))
        return q
    q = mk()
    return [q, q], [mk, mk], lambda r: (index_of(xs, r.src), type(r).__name__)


FAMILIES = {
    "one-query-twice": fam_one_query,
    "two-variable-query-twice": fam_two_var_query,
    "two-queries-sharing-a-variable": fam_shared_variable,
    "two-queries-sharing-a-lazily-produced-domain": fam_shared_lazy_variable,
    "two-queries-sharing-a-subexpression": fam_shared_subexpression,
    "two-queries-sharing-an-attribute-node-in-two-roles": fam_shared_attribute_two_roles,
    "query-over-an-empty-domain-twice": fam_empty_domain,
    "exists-query-twice": fam_exists,
    "forall-query-twice": fam_forall,
    "the-then-an-on-one-variable": fam_the_then_an,
    "rule-query-twice": fam_rule,
    "rule-with-refinement-twice": fam_rule_refinement,
}


def _run_isolated(mk, norm):
    q = mk()
    try:
        r = q.evaluate()
        if not hasattr(r, "__next__") and not hasattr(r, "__iter__") or isinstance(r, P):
            return [norm(r)], None
        return [norm(v) for v in r], None
    except Exception as e:
        return None, type(e).__name__


def harness(fam, L, N, mode, prefix=()):
    """mode: 'schedule' = symbolic interleaving of start/next/abandon; 'sequential' = run 0 fully, then 1 fully, then 0 again;
       'nested' = evaluation 1 completely inside each step of evaluation 0"""
    f = FAMILIES[fam]

    def h(ctx):
        xs = [P(ctx.fresh_int("xa%d" % i), ctx.fresh_int("xb%d" % i)) for i in range(N)]
        ys = [P(ctx.fresh_int("ya%d" % i)) for i in range(N)]
        k = [ctx.fresh_int("k%d" % i) for i in range(2)]
        queries, fresh, norm = f(xs, ys, k, None)
        # reference: what each evaluation produces when run alone on a fresh query (evaluated lazily, once per query index)
        ref = {}

        def reference(i):
            if i not in ref:
                ref[i] = _run_isolated(fresh[i], norm)
            return ref[i]

        iters = []  # [query index, iterator or None, outputs, state]
        trace = []
        v = {}
        ok_prefix, ok_final, ok_exc = [], [], []

        def start(i):
            q = queries[i]
            try:
                r = q.evaluate()
            except Exception as e:
                iters.append([i, None, [], "raised:" + type(e).__name__])
                return
            if hasattr(r, "__next__"):
                iters.append([i, r, [], "live"])
            else:  # the(...) evaluates eagerly
                iters.append([i, None, [norm(r)], "done"])

        advanced = set()
        flags = {}

        def step(j):
            it = iters[j]
            # is another evaluation of the very same query object in progress (advanced and not finished)?
            for jj, other in enumerate(iters):
                if jj != j and queries[other[0]] is queries[it[0]] and other[3] == "live" and jj in advanced:
                    flags["interleaved"] = True
            advanced.add(j)
            try:
                it[2].append(norm(next(it[1])))
            except StopIteration:
                it[3] = "done"
            except Exception as e:
                it[3] = "raised:" + type(e).__name__

        if mode == "schedule":
            for s in range(L):
                live = [j for j, it in enumerate(iters) if it[3] == "live"]
                opts = [("start", i) for i in range(len(queries)) if len(iters) < 3] + [("next", j) for j in live] + [("abandon", j) for j in live] + [("drain", j) for j in live]
                if prefix and s >= len(prefix):
                    opts = [o for o in opts if o[0] in ("next", "drain")]
                if not opts:
                    break
                if s < len(prefix):
                    op = prefix[s]
                else:
                    op = opts[ctx.choice("s%d" % s, len(opts))]
                trace.append(op)
                if op[0] == "start":
                    start(op[1])
                elif op[0] == "next":
                    step(op[1])
                elif op[0] == "drain":  # consume the rest of the iterator in one step
                    while iters[op[1]][3] == "live":
                        step(op[1])
                else:
                    iters[op[1]][3] = "abandoned"
        elif mode == "sequential":
            for i in (0, 1, 0):
                start(i)
                while iters[-1][3] == "live":
                    step(len(iters) - 1)
        else:  # nested
            start(0)
            while iters[0][3] == "live":
                step(0)
                if iters[0][3] != "live":
                    break
                start(1)
                while iters[-1][3] == "live":
                    step(len(iters) - 1)
        for i, it, outs, state in iters:
            exp, exp_exc = reference(i)
            if state.startswith("raised:"):
                ok_exc.append(exp_exc == state[7:])
                continue
            if exp is None:
                ok_exc.append(False)  # alone it raises, here it did not (yet): only acceptable while nothing was produced
                continue
            ok_prefix.append(outs == exp[: len(outs)])
            if state == "done":
                ok_final.append(outs == exp)
        ctx.observe(trace, [(i, outs, state) for i, it, outs, state in iters])
        ctx.note("nonempty", any(outs for _, _, outs, _ in iters))
        sfx = "[one-query-object-advanced-while-another-evaluation-of-it-is-in-progress]" if flags.get("interleaved") else ""
        v["every-evaluation-is-a-prefix-of-its-isolated-result" + sfx] = all(ok_prefix)
        v["exhausted-evaluations-equal-their-isolated-result" + sfx] = all(ok_final)
        v["same-exceptions-as-in-isolation" + sfx] = all(ok_exc)
        return v

    return h


def domainless_case(N):
    """an evaluation over a domain-less variable is not disturbed by instances that come into being while it is suspended
    (created by the program, or inferred by another evaluation); it ranges over the instances alive when it started"""
    from . import sgworld as W

    def h(ctx):
        W.fresh_graph()
        n = 1 + ctx.choice("n", N)
        objs = [W.T(tag=i) for i in range(n)]
        q = an(entity(let(W.T, None)))
        it = q.evaluate()
        pulled = ctx.choice("pulled", n + 1)
        got = []
        for _ in range(pulled):
            got.append(next(it))
        how = ctx.choice("how", 3)
        extra = []
        if how == 0:
            extra = [W.T(tag=100 + i) for i in range(1 + ctx.choice("k", 2))]  # the program creates instances
        elif how == 1:
            extra = [W.Sub(tag=100)]  # an instance of a subclass
        else:
            # another evaluation runs in between and infers instances of the type
            src = let(W.Other, [W.Other(tag=7)], name="src")
            views = inference(W.T)()
            rq = an(entity(views, src.tag > 0))
            with rq:
                Add(views, inference(W.T)(tag=src.tag))
            extra = list(rq.evaluate())
        got.extend(it)
        ctx.observe(n, pulled, how, [getattr(o, "tag", None) for o in got])
        ctx.note("nonempty", bool(got))
        v = {}
        has_all = all(sum(1 for g in got if g is o) == 1 for o in objs)
        only_known = all(any(g is o for o in objs + extra) for g in got) and len(got) <= len(objs) + len(extra)
        if how == 2 and pulled > 0:
            # the result of an evaluation does not depend on another evaluation that runs while it is suspended
            v["suspended-evaluation-is-not-disturbed-by-another-evaluation"] = has_all and len(got) == n
        else:
            # instances the program itself creates meanwhile may or may not be seen (not stated); the others are seen once
            v["suspended-evaluation-sees-every-instance-alive-at-its-start-once"] = has_all and only_known
        # a query stated afterwards sees everything that is alive now
        later = list(an(entity(let(W.T, None))).evaluate())
        v["a-later-evaluation-sees-the-new-instances"] = len(later) == n + len(extra) and all(any(g is o for g in later) for o in objs + extra)
        del got, later, extra, it
        # a rule that infers instances of the very type its own variable ranges over does not feed on its conclusions
        import itertools as _it

        x = let(W.T, None, name="x")
        out = inference(W.T)()
        fq = an(entity(out, x.tag >= 0))
        with fq:
            Add(out, inference(W.T)(tag=x.tag))
        n_alive = len(list(an(entity(let(W.T, None))).evaluate()))
        produced = list(_it.islice(fq.evaluate(), n_alive + 3))
        v["a-rule-does-not-feed-on-its-own-conclusions"] = len(produced) == n_alive
        del produced
        return v

    return h, W


LONG_FAMILIES = ("two-variable-query-twice", "two-queries-sharing-a-variable", "two-queries-sharing-a-lazily-produced-domain", "two-queries-sharing-a-subexpression", "exists-query-twice")


def cases(tier, seed):
    L = 4 if tier == "quick" else 6
    N = 2
    cs = []
    for fam in FAMILIES:
        for mode in ("sequential", "nested", "schedule"):
            nm = "%s|%s" % (fam, mode)
            Lf = 5 if tier != "quick" and fam in LONG_FAMILIES else L  # (measured: these run into the budget with 6 steps)
            cs.append(Case(nm + ("|L=%d" % Lf if mode == "schedule" else ""), harness(fam, Lf, N, mode), key=nm, reset=eql_reset, validate=1,
                           timeout=400 if tier == "quick" else 2400, max_paths=150000 if tier == "quick" else 2000000, cex_grace=10**9))
    h_, W_ = domainless_case(2 if tier == "quick" else 3)
    cs.append(Case("a domain-less variable while instances are created during its evaluation", h_, key="domainless-variable|instances-created-meanwhile", reset=lambda: (W_.world_reset(), eql_reset()), validate=1, timeout=400))
    # both evaluations requested first, then L symbolic next / drain steps
    for fam in ("two-queries-sharing-a-lazily-produced-domain", "rule-with-refinement-twice"):
        nm = "%s|schedule after both were requested" % fam
        cs.append(Case(nm + "|L=2+%d" % L, harness(fam, L + 2, N, "schedule", prefix=(("start", 0), ("start", 1))), key=nm, reset=eql_reset, validate=1,
                       timeout=400 if tier == "quick" else 2400, max_paths=150000 if tier == "quick" else 2000000, cex_grace=10**9))
    return cs


def describe(tier):
    L = 4 if tier == "quick" else 6
    return dict(
        rule="scenario family (one query twice; two-variable query; two queries sharing a variable; sharing a variable whose domain is a generator; sharing a sub-expression; sharing one attribute node used as a condition in one and as an operand in the other; a query over an empty (generator) domain evaluated twice; exists; for_all; the() then an(); "
        "rule query; rule query with refinement; plus a suspended evaluation over a domain-less variable while the program creates / another evaluation infers instances of its type) x mode (sequential 0,1,0; evaluation 1 nested inside every step of evaluation 0; a symbolic schedule of <= %d "
        "steps over start(q_i) / next(it_j) / drain(it_j) (consume the rest) / abandon(it_j) with <= 3 iterators); attribute values symbolic; the reference for every evaluation is the result of "
        "a fresh, structurally identical query over the same objects run alone; non-trivial = >= 2 feasible paths and some output" % L,
        bounds=dict(schedule_length=L, iterators="<= 3", objects_per_domain=2, values="unbounded integers"),
        outside=["threads (the property speaks of interleavings of next() steps)", "more than 3 live iterators", "longer schedules" + ("" if tier == "quick" else " (5 steps for the families " + ", ".join(LONG_FAMILIES) + ")")],
        assumptions=["the engine run alone on a fresh query is the reference (its absolute correctness is C01/C02/C08)", "inferred instances are compared by type and source object"],
    )
