"""C15 -- property-descriptor inference reaches the full closure in any assertion order."""
from __future__ import annotations

import itertools

from vlib.core import Case

from krrood.entity_query_language.symbol_graph import SymbolGraph

from . import sgworld as W
from .eqlworld import index_of

PROPERTY = "C15"
LEVEL = "model_checking"


def closure(facts, people_of_boss):
    """reference fixpoint of the declared semantics.  facts: set of (field, subject, object) over object indices."""
    F = set(facts)
    changed = True
    while changed:
        changed = False
        new = set()
        for (f, s, o) in F:
            if f == "works_for":
                new |= {("member_of", s, o), ("members", o, s)}  # super property; inverse (of MemberOf, inherited)
            elif f == "member_of":
                new |= {("members", o, s)}
            elif f == "members":
                # inverse of Member is MemberOf: on the member itself, or on its role taker when the member is a role
                p = people_of_boss.get(o)
                new |= {("member_of", p if p is not None else o, s)}
            elif f == "head_of":
                p = people_of_boss[s]
                new |= {("works_for", p, o), ("member_of", p, o), ("members", o, s)}  # super properties live on the role taker
            elif f == "sub_org_of":
                new |= {("related_to", s, o)}  # super property (also of the transitively inferred relations)
                for (g, s2, o2) in F:
                    if g == "sub_org_of" and s2 == o:
                        new.add(("sub_org_of", s, o2))
        if not new <= F:
            F |= new
            changed = True
    return F


def sequence_case(L, n_org, n_hum, with_boss, first):
    def h(ctx):
        W.fresh_graph()
        orgs = [W.Org(name=i) for i in range(n_org)]
        hums = [W.Human(name=10 + i) for i in range(n_hum)]
        boss = [W.Boss(person=hums[0])] if with_boss else []
        objs = orgs + hums + boss
        O = list(range(n_org))
        H = list(range(n_org, n_org + n_hum))
        B = [n_org + n_hum] if with_boss else []
        people_of_boss = {B[0]: H[0]} if with_boss else {}
        facts = set()
        single_assigned = set()
        replaced = False
        trace = []
        v = {"no-exception": True}
        # the assertions available on this population: (form, field, subject, object(s))
        def options():
            out = []
            for hh in H:
                for oo in O:
                    if ("works_for", hh) not in single_assigned:
                        out.append(("assign", "works_for", hh, oo))
                    out.append(("append", "member_of", hh, oo))
                out.append(("assign-container", "member_of", hh, tuple(O[:1])))
                out.append(("iadd", "member_of", hh, tuple(O[-1:])))
            for oo in O:
                for hh in H:
                    out.append(("add", "members", oo, hh))
                out.append(("assign-container", "members", oo, tuple(H[:2])))
                for o2 in O:
                    if o2 != oo:
                        out.append(("append", "sub_org_of", oo, o2))
                        if n_org > 2:
                            out.append(("append", "partner_of", oo, o2))  # another property on the same ordered pair
                if n_org > 2:
                    out.append(("iadd", "sub_org_of", oo, (O[(oo + 1) % n_org],)))  # augmented assignment
                out.append(("ior", "members", oo, tuple(H[:1])))
                if len(O) > 2:
                    out.append(("assign-container", "sub_org_of", oo, tuple(x for x in O if x != oo)[:2]))
            for bb in B:
                for oo in O:
                    if ("head_of", bb) not in single_assigned:
                        out.append(("assign", "head_of", bb, oo))
                    out.append(("add", "members", oo, bb))
            return out

        try:
            for s in range(L):
                opts = options()
                if s < len(first):
                    op = first[s]
                    if op not in opts:
                        ctx.assume(False)
                else:
                    op = opts[ctx.choice("a%d" % s, len(opts))]
                trace.append(op)
                form, fld, subj, obj = op
                if form == "assign":
                    setattr(objs[subj], fld, objs[obj])
                    single_assigned.add((fld, subj))
                    facts.add((fld, subj, obj))
                elif form in ("append", "add"):
                    getattr(getattr(objs[subj], fld), form)(objs[obj])
                    facts.add((fld, subj, obj))
                elif form == "iadd":
                    exec("o.%s += v" % fld, {"o": objs[subj], "v": [objs[i] for i in obj]})
                    for i in obj:
                        facts.add((fld, subj, i))
                elif form == "ior":
                    exec("o.%s |= v" % fld, {"o": objs[subj], "v": {objs[i] for i in obj}})
                    for i in obj:
                        facts.add((fld, subj, i))
                else:
                    cur = getattr(objs[subj], fld)
                    if len(cur) > 0:
                        replaced = True  # assigning over a non-empty collection: what happens to earlier values is C16's subject
                    val = [objs[i] for i in obj]
                    setattr(objs[subj], fld, set(val) if fld == "members" else list(val))
                    for i in obj:
                        facts.add((fld, subj, i))
        except Exception as e:
            v["no-exception"] = False
            ctx.observe("raised %s: %s" % (type(e).__name__, str(e)[:100]), [list(map(str, t)) for t in trace])
            return v
        expected = closure(facts, people_of_boss)
        g = SymbolGraph()
        got = set()
        for e in g._instance_graph.edges():
            si, ti = index_of(objs, e.source.instance), index_of(objs, e.target.instance)
            got.add((e.wrapped_field.public_name if hasattr(e.wrapped_field, "public_name") else e.wrapped_field.name, si, ti))
        sfx = "[a-collection-was-assigned-over-existing-values]" if replaced else ""
        ctx.observe([list(map(str, t)) for t in trace], sorted(got ^ expected))
        ctx.note("nonempty", 1)
        v["graph-holds-exactly-the-closure" + sfx] = got == expected
        # the fields agree with the graph
        field_facts = set()
        for i, o in enumerate(objs):
            for fld in ("works_for", "member_of", "members", "sub_org_of", "related_to", "partner_of", "head_of"):
                if not hasattr(type(o), fld):
                    continue
                val = getattr(o, fld)
                if val is None:
                    continue
                for x in (val if isinstance(val, (list, set)) else [val]):
                    field_facts.add((fld, i, index_of(objs, x)))
        # a single-valued field for which several values are derivable can hold only one of them: not compared
        multi = {(f, s_) for (f, s_, o_) in expected if f in ("works_for", "head_of") and sum(1 for (g_, s2, o2) in expected if g_ == f and s2 == s_) > 1}
        field_facts = {t for t in field_facts if (t[0], t[1]) not in multi}
        got = {t for t in got if (t[0], t[1]) not in multi}
        v["fields-agree-with-the-graph" + sfx] = field_facts == got
        if field_facts != got:
            ctx.observe(sorted(field_facts ^ got))
        return v

    return h


def hierarchy_case(L):
    """a property hierarchy of depth 3 (Holds < Touches < Near, no inverses) on a class that has all three fields (Arm) and on
    a class that has the sub-property and the grand-parent but not the middle one (Hand)"""

    def h(ctx):
        W.fresh_graph()
        orgs = [W.Org(name=i) for i in range(2)]
        subj = [W.Hand(name=10), W.Arm(name=11)]
        objs = orgs + subj
        facts, trace, assigned = set(), [], set()
        v = {"no-exception": True}
        try:
            for s in range(L):
                opts = []
                for si in (2, 3):
                    for oi in (0, 1):
                        for fld in ("holds", "touches"):
                            if hasattr(type(objs[si]), fld) and (fld, si) not in assigned:
                                opts.append(("assign", fld, si, oi))
                        opts.append(("append", "near", si, oi))
                op = opts[ctx.choice("a%d" % s, len(opts))]
                trace.append(op)
                form, fld, si, oi = op
                if form == "assign":
                    setattr(objs[si], fld, objs[oi])
                    assigned.add((fld, si))
                else:
                    getattr(objs[si], fld).append(objs[oi])
                facts.add((fld, si, oi))
        except Exception as e:
            v["no-exception"] = False
            ctx.observe("raised %s: %s" % (type(e).__name__, str(e)[:100]), [list(map(str, t)) for t in trace])
            return v
        # reference closure: a fact of a sub-property holds for every super-property the subject's class has a field for
        SUPER = {"holds": ["touches", "near"], "touches": ["near"], "near": []}
        expected = set(facts)
        for (f, si, oi) in facts:
            for sup in SUPER[f]:
                if hasattr(type(objs[si]), sup):
                    expected.add((sup, si, oi))
        got = set()
        for e in SymbolGraph()._instance_graph.edges():
            got.add((e.wrapped_field.public_name if hasattr(e.wrapped_field, "public_name") else e.wrapped_field.name, index_of(objs, e.source.instance), index_of(objs, e.target.instance)))
        ctx.observe([list(map(str, t)) for t in trace], sorted(got ^ expected))
        ctx.note("nonempty", 1)
        v["graph-holds-exactly-the-closure"] = got == expected
        field_facts = set()
        for i in (2, 3):
            for fld in ("holds", "touches", "near"):
                if hasattr(type(objs[i]), fld):
                    val = getattr(objs[i], fld)
                    for x in (val if isinstance(val, list) else [val] if val is not None else []):
                        field_facts.add((fld, i, index_of(objs, x)))
        # a single-valued field for which several values are derivable can hold only one of them: not compared
        multi = {(f, s_) for (f, s_, o_) in expected if f in ("holds", "touches") and sum(1 for (g_, s2, o2) in expected if g_ == f and s2 == s_) > 1}
        v["fields-agree-with-the-graph"] = {t for t in field_facts if (t[0], t[1]) not in multi} == {t for t in got if (t[0], t[1]) not in multi}
        return v

    return h


def cases(tier, seed):
    cs = []
    cs.append(Case("property hierarchy of depth 3 with a gap|L=%d" % (2 if tier == "quick" else 3), hierarchy_case(2 if tier == "quick" else 3), key="hierarchy-with-a-gap", reset=W.world_reset, validate=0, timeout=900, cex_grace=10**9))
    # thorough: one assertion more on the quick populations, and the quick length on larger populations
    pops = [(2, 2, True, 3), (3, 1, False, 3)] if tier == "quick" else [(2, 2, True, 4), (3, 1, False, 4), (3, 2, True, 3), (4, 1, False, 3)]
    for (n_org, n_hum, boss, L) in pops:
        # split by the first assertion for parallelism
        probe_first = []
        O = list(range(n_org)); H = list(range(n_org, n_org + n_hum)); B = [n_org + n_hum] if boss else []
        firsts = [("assign", "works_for", H[0], O[0]), ("append", "member_of", H[0], O[0]), ("add", "members", O[0], H[0]), ("assign-container", "members", O[0], tuple(H[:2])),
                  ("append", "sub_org_of", O[0], O[1]), ("append", "sub_org_of", O[1], O[0])]
        if n_org > 2:
            firsts += [("append", "sub_org_of", O[1], O[2]), ("assign-container", "sub_org_of", O[0], tuple(x for x in O if x != O[0])[:2]), ("append", "partner_of", O[1], O[2]), ("iadd", "sub_org_of", O[0], (O[1],))]
        if boss:
            firsts += [("assign", "head_of", B[0], O[0]), ("add", "members", O[0], B[0])]
        for f in firsts:
            nm = "population %d orgs, %d humans%s|first=%s" % (n_org, n_hum, ", 1 boss" if boss else "", ":".join(map(str, f)))
            cs.append(Case(nm + "|L=%d" % L, sequence_case(L, n_org, n_hum, boss, [f]), key=nm, reset=W.world_reset, validate=0, timeout=900 if tier == "quick" else 3000, max_paths=500000, cex_grace=10**9))
    return cs


def describe(tier):
    L = 3 if tier == "quick" else 4
    return dict(
        rule="sequences of %d assertions (bounded symbolic choices of subject, object, property and write form: single-valued assignment, container assignment, append/add, += / |=) "
        "over a population of orgs, humans and a boss role (harness ontology: WorksFor < MemberOf, Member inverse of MemberOf, HeadOf < WorksFor living on the role taker, "
        "transitive SubOrgOf < RelatedTo; and Holds < Touches < Near without inverses on a class with all three fields and on one without the middle field) - all orders, diamonds and cycles within the bound; the relations in the real SymbolGraph must equal a reference fixpoint closure of the "
        "asserted facts and every managed field must hold exactly (as a set) the graph's outgoing relations for that field (multiplicities in list fields are C16's subject). non-trivial = every path asserts facts" % L,
        bounds=dict(sequence_length="3 (quick); 4 on the quick populations and 3 on 3 orgs + 2 humans + boss / 4 orgs + 1 human (thorough)", population="2 orgs + 2 humans + boss, 3 orgs + 1 human (quick); up to 4 orgs (thorough)"),
        outside=["re-assignment of a single-valued field (the earlier relation stays in the graph; the property does not say which wins)", "sequences longer than %d" % L],
        assumptions=["reference closure rules written from the declared semantics (sub-property => super-property, on the role taker where it lives; property => inverse; transitive closure)",
                     "solver role: the sequence is a vector of finite symbolic choices explored exhaustively"],
    )
