"""C17 -- class diagrams mirror the Python classes and derived views leave them intact."""
from __future__ import annotations

import dataclasses
import enum
import itertools
import os
import sys
import types
import typing
from dataclasses import field, make_dataclass
from datetime import datetime
from typing import List, Optional, Set, Type

from vlib.core import Case

from krrood.class_diagrams.class_diagram import ClassDiagram, Inheritance, Association

from .c06_ormatic import Shade, core_pick

PROPERTY = "C17"
LEVEL = "exploration"

NAMES = ["Alpha", "Beta", "Gamma"]
KINDS = ["int", "opt-int", "enum", "opt-enum", "list-int", "set-str", "private", "ref", "opt-ref", "list-ref", "set-ref", "type-ref", "str-forward-ref", "datetime", "opt-nested-fwd", "list-nested-fwd", "type-nested-fwd", "none-first-opt-ref", "pipe-opt-ref"]
REFS = ("ref", "opt-ref", "list-ref", "set-ref", "type-ref", "str-forward-ref", "opt-nested-fwd", "list-nested-fwd", "type-nested-fwd", "none-first-opt-ref", "pipe-opt-ref")
_counter = [0]


def build(spec):
    """spec: [(base index or -1, [(field name, kind, target index)])] -> classes (annotations partly as strings = forward references)"""
    _counter[0] += 1
    modname = "verif_c17_model_%d_%d" % (os.getpid(), _counter[0])
    mod = types.ModuleType(modname)
    mod.Shade, mod.Optional, mod.List, mod.Set, mod.Type, mod.Union = Shade, Optional, List, Set, Type, typing.Union
    sys.modules[modname] = mod
    classes = []
    for i, (base, flds) in enumerate(spec):
        fs = []
        for fname, kind, target in flds:
            t = NAMES[target] if target is not None else None
            ann = {
                "int": int, "opt-int": Optional[int], "enum": Shade, "opt-enum": Optional[Shade], "list-int": List[int], "set-str": Set[str], "private": int, "datetime": datetime,
                "ref": t, "opt-ref": "Optional[%s]" % t, "list-ref": "List[%s]" % t, "set-ref": "Set[%s]" % t, "type-ref": "Type[%s]" % t, "str-forward-ref": t,
                # a quoted forward reference nested inside a wrapper (the annotation object is Optional[ForwardRef('T')], not a string)
                # the same optional reference written with None first / with the | operator
                "none-first-opt-ref": "Union[None, %s]" % t, "pipe-opt-ref": "%s | None" % t,
                "opt-nested-fwd": Optional[t] if t else None, "list-nested-fwd": List[t] if t else None, "type-nested-fwd": Type[t] if t else None,
            }[kind]
            fs.append((("_" + fname) if kind == "private" else fname, ann, field(default=None)))
        bases = (classes[base],) if base >= 0 else ()
        cls = make_dataclass(NAMES[i], fs, bases=bases, module=modname, eq=False)
        setattr(mod, NAMES[i], cls)
        classes.append(cls)
    return classes


def expected(classes):
    """independent reading with typing.get_type_hints"""
    cs = set(classes)
    nodes = set(classes)
    inh = {(b, c) for c in classes for b in c.__bases__ if b in cs}
    assoc = set()
    flags = {}
    for c in classes:
        hints = typing.get_type_hints(c, vars(sys.modules[c.__module__]))
        for f in dataclasses.fields(c):
            if f.name.startswith("_"):
                continue
            t = hints[f.name]
            origin, args = typing.get_origin(t), typing.get_args(t)
            optional = origin in (typing.Union, types.UnionType) and len(args) == 2 and type(None) in args
            container = origin in (list, set, tuple, type)
            inner = ([a for a in args if a is not type(None)][0] if optional else args[0] if container else t)
            builtin = inner in (int, float, str, bool, datetime, type(None))
            fl = dict(
                is_optional=optional,
                is_container=container,
                is_builtin_type=builtin,
                is_enum=(not container) and isinstance(inner, type) and issubclass(inner, enum.Enum),
                is_type_type=origin is type,
                is_one_to_one_relationship=(not container) and not builtin,
                is_one_to_many_relationship=container and not builtin and not optional,
            )
            flags[(c, f.name)] = fl
            if inner in cs:
                assoc.add((c, inner, f.name))
    return nodes, inh, assoc, flags


def snapshot(d: ClassDiagram):
    g = d._dependency_graph
    nodes = sorted(w.clazz.__name__ for w in g.nodes())
    edges = sorted((type(e).__name__, e.source.clazz.__name__, e.target.clazz.__name__, getattr(getattr(e, "field", None), "name", "")) for e in g.edges())
    fields = sorted((w.clazz.__name__, f.name) for w in g.nodes() for f in w.fields)
    return nodes, edges, fields


def query_snapshot(d: ClassDiagram):
    """what the diagram's query API answers (these answers are cached by the diagram)"""
    out = []
    for w in sorted(d.wrapped_classes, key=lambda w: w.clazz.__name__):
        c = w.clazz
        out.append((c.__name__,
                    sorted((type(e).__name__, e.target.clazz.__name__, getattr(getattr(e, "field", None), "name", "")) for e in d.get_out_edges(c)),
                    sorted(n.clazz.__name__ for n in d.get_outgoing_neighbors_with_relation_type(c, Association)),
                    sorted(n.clazz.__name__ for n in d.get_incoming_neighbors_with_relation_type(c, Association)),
                    sorted(n.clazz.__name__ for n in d.get_neighbors_with_relation_type(c, Inheritance))))
    return out


VIEW_OPS = ["subdiagram(True)", "subdiagram(False)", "associations", "inheritance_relations", "parent_map", "get_out_edges", "assoc_keys", "all_ancestors"]


def apply_view(d, op):
    if op == "subdiagram(True)":
        return d.to_subdiagram_without_inherited_associations(True)
    if op == "subdiagram(False)":
        return d.to_subdiagram_without_inherited_associations(False)
    if op == "associations":
        return d.associations
    if op == "inheritance_relations":
        return d.inheritance_relations
    if op == "parent_map":
        return d.parent_map
    if op == "get_out_edges":
        return [d.get_out_edges(w) for w in d.wrapped_classes]
    if op == "assoc_keys":
        return d.get_assoc_keys_by_source(True)
    if op == "all_ancestors":
        return [d.all_ancestors(w.index) for w in d.wrapped_classes]


def case(K, kinds1, kinds2, fixed, n_views):
    def h(ctx):
        spec = []
        for i in range(K):
            base = core_pick(ctx, "base%d" % i, i + 1, fixed) - 1
            flds = []
            for j, kinds in enumerate((kinds1, kinds2)):
                if not kinds:
                    continue
                kind = kinds[core_pick(ctx, "kind%d_%d" % (i, j), len(kinds), fixed)]
                target = core_pick(ctx, "target%d_%d" % (i, j), K, fixed) if kind in REFS else None
                flds.append(("f%d_%d" % (i, j), kind, target))
            spec.append((base, flds))
        orders = list(itertools.permutations(range(K)))
        order = orders[core_pick(ctx, "order", len(orders), fixed)]
        classes = build(spec)
        ctx.observe([(b, [(n, k, t) for n, k, t in f]) for b, f in spec], order)
        ctx.note("nonempty", 1)
        v = {}
        try:
            d = ClassDiagram([classes[i] for i in order])
        except Exception as e:
            ctx.observe("construction raised %s: %s" % (type(e).__name__, str(e)[:100]))
            v["diagram-is-built"] = False
            return v
        nodes, inh, assoc, flags = expected(classes)
        got_nodes = {w.clazz for w in d.wrapped_classes}
        got_inh = {(e.source.clazz, e.target.clazz) for e in d.inheritance_relations}
        got_assoc = {(e.source.clazz, e.target.clazz, e.field.name) for e in d.associations}
        v["one-node-per-class"] = got_nodes == nodes and len(d.wrapped_classes) == len(nodes)
        v["inheritance-edges-are-the-direct-base-pairs"] = got_inh == inh and len(d.inheritance_relations) == len(inh)
        v["association-edges-are-the-class-typed-public-fields"] = got_assoc == assoc and len(d.associations) == len(assoc)
        bad = []
        for w in d.wrapped_classes:
            for f in w.fields:
                exp = flags.get((w.clazz, f.name))
                if exp is None:
                    bad.append((w.clazz.__name__, f.name, "field should not be discovered"))
                    continue
                for name, val in exp.items():
                    try:
                        g = bool(getattr(f, name))
                    except Exception as e:
                        g = "raised " + type(e).__name__
                    if g != val:
                        bad.append((w.clazz.__name__, f.name, name, g))
            missing = {n for (c, n) in flags if c is w.clazz} - {f.name for f in w.fields}
            if missing:
                bad.append((w.clazz.__name__, sorted(missing), "public fields not discovered"))
        v["fields-are-classified-as-annotated"] = not bad
        if bad:
            ctx.observe(bad[:4])
        # derived views never change the diagram they were derived from
        before = snapshot(d)
        ops = []
        for s in range(n_views):
            op = VIEW_OPS[ctx.choice("view%d" % s, len(VIEW_OPS))]
            ops.append(op)
            try:
                r = apply_view(d, op)
            except Exception as e:
                ctx.observe("view %s raised %s" % (op, type(e).__name__))
                v["views-do-not-raise"] = False
                return v
            if op.startswith("subdiagram"):
                # (what the derived diagram contains is not part of the property; only that it is a different object that
                # does not share state with its source)
                v["sub-diagram-is-a-new-diagram"] = v.get("sub-diagram-is-a-new-diagram", True) and (r is not d) and (r._dependency_graph is not d._dependency_graph)
                try:
                    query_snapshot(r)  # reading the derived diagram is a view operation too
                except Exception as e:
                    ctx.observe("querying the sub-diagram raised %s" % type(e).__name__)
                    v["views-do-not-raise"] = False
                    return v
        ctx.observe(ops)
        v["views-leave-the-diagram-intact"] = snapshot(d) == before
        # ... including what its query API answers: the same as a diagram built anew from the same classes
        v["views-leave-the-diagram's-answers-intact"] = query_snapshot(d) == query_snapshot(ClassDiagram([classes[i] for i in order]))
        return v

    return h


def build_generic_chain():
    """Box(Generic[T]) <- ItemBox(Box[Item]) <- Shelf(ItemBox) <- TopShelf(Shelf), plus Item: plain subclasses below a
    parametrised generic base"""
    from typing import Generic, TypeVar

    _counter[0] += 1
    modname = "verif_c17_generic_%d_%d" % (os.getpid(), _counter[0])
    mod = types.ModuleType(modname)
    sys.modules[modname] = mod
    T = TypeVar("T")
    Item = make_dataclass("Item", [("v", int, field(default=0))], module=modname, eq=False)
    Box = make_dataclass("Box", [("content", Optional[int], field(default=None))], bases=(Generic[T],), module=modname, eq=False)
    ItemBox = make_dataclass("ItemBox", [("item", Item, field(default=None))], bases=(Box[Item],), module=modname, eq=False)
    Shelf = make_dataclass("Shelf", [("level", int, field(default=0))], bases=(ItemBox,), module=modname, eq=False)
    TopShelf = make_dataclass("TopShelf", [], bases=(Shelf,), module=modname, eq=False)
    for c in (Item, Box, ItemBox, Shelf, TopShelf):
        setattr(mod, c.__name__, c)
    return [Item, Box, ItemBox, Shelf, TopShelf]


def build_same_name_in_two_modules():
    """two modules that each define a class Point and a holder with a forward reference "Point" (a string annotation)"""
    out = []
    for k in (1, 2):
        _counter[0] += 1
        modname = "verif_c17_twomod%d_%d_%d" % (k, os.getpid(), _counter[0])
        mod = types.ModuleType(modname)
        sys.modules[modname] = mod
        mod.Optional, mod.List = Optional, List
        Point = make_dataclass("Point", [("x", int, field(default=0))], module=modname, eq=False)
        Holder = make_dataclass("Holder%d" % k, [("p", "Point", field(default=None)), ("ps", "List[Point]", field(default_factory=list))], module=modname, eq=False)
        mod.Point = Point
        setattr(mod, "Holder%d" % k, Holder)
        out += [Point, Holder]
    return out


def build_zoo():
    """several direct bases one of which is an ancestor of another (Document(Tracked, Entity), Tracked(Entity)); fields typed
    with classes that may be left out of the diagram while their ancestor is in (Owner -> Dog / Puppy, Animal)"""
    _counter[0] += 1
    modname = "verif_c17_zoo_%d_%d" % (os.getpid(), _counter[0])
    mod = types.ModuleType(modname)
    sys.modules[modname] = mod
    mod.Optional, mod.List, mod.Set, mod.Type = Optional, List, Set, Type
    Entity = make_dataclass("Entity", [("v", int, field(default=0))], module=modname, eq=False)
    Tracked = make_dataclass("Tracked", [], bases=(Entity,), module=modname, eq=False)
    Document = make_dataclass("Document", [], bases=(Tracked, Entity), module=modname, eq=False)
    Animal = make_dataclass("Animal", [("n", int, field(default=0))], module=modname, eq=False)
    Dog = make_dataclass("Dog", [], bases=(Animal,), module=modname, eq=False)
    Owner = make_dataclass("Owner", [("favourite", "Dog", field(default=None)), ("dogs", "List[Dog]", field(default_factory=list)), ("maybe", "Optional[Dog]", field(default=None)),
                                     ("pet", "Animal", field(default=None)), ("doc", "Optional[Document]", field(default=None))], module=modname, eq=False)
    out = [Entity, Tracked, Document, Animal, Dog, Owner]
    for c in out:
        setattr(mod, c.__name__, c)
    return out


def special_case(builder, n_classes, n_views, subsets=False):
    def h(ctx):
        classes = builder()
        if subsets:
            # any subset of the classes may be handed to the diagram (a class that is left out is no endpoint of an edge)
            classes = [c for i, c in enumerate(classes) if ctx.flag("in%d" % i)]
            if not classes:
                ctx.assume(False)
            n = len(classes)
            orders = [tuple(range(n)), tuple(reversed(range(n)))]
        else:
            orders = list(itertools.permutations(range(n_classes)))
        order = orders[ctx.choice("order", len(orders))]
        ctx.observe(builder.__name__, order)
        ctx.note("nonempty", 1)
        d = ClassDiagram([classes[i] for i in order])
        nodes, inh, assoc, flags = expected(classes)
        v = {}
        v["one-node-per-class"] = {w.clazz for w in d.wrapped_classes} == nodes
        got_inh = {(e.source.clazz, e.target.clazz) for e in d.inheritance_relations}
        v["inheritance-edges-are-the-direct-base-pairs"] = got_inh == inh and len(d.inheritance_relations) == len(inh)
        got_assoc = {(e.source.clazz, e.target.clazz, e.field.name) for e in d.associations}
        v["association-edges-are-the-class-typed-public-fields"] = got_assoc == assoc and len(d.associations) == len(assoc)
        if got_inh != inh or got_assoc != assoc:
            ctx.observe(sorted((a.__name__, b.__name__) for a, b in got_inh ^ inh), sorted((a.__name__, b.__module__[-12:] + "." + b.__name__, n) for a, b, n in got_assoc ^ assoc))
        before = snapshot(d)
        for s_ in range(n_views):
            apply_view(d, VIEW_OPS[ctx.choice("view%d" % s_, len(VIEW_OPS))])
        v["views-leave-the-diagram-intact"] = snapshot(d) == before
        return v

    return h


def cases(tier, seed):
    cs = []
    n_views = 2  # (3 derived views per diagram: every K=2 case ran into its budget - measured)
    cs.append(Case("generic base chain (5 classes, every order)", special_case(build_generic_chain, 5, 1), validate=0, timeout=900))
    cs.append(Case("several direct bases incl. an ancestor; field types left out of the diagram (every subset of 6 classes, 2 orders)", special_case(build_zoo, 6, 1, subsets=True), key="zoo", validate=0, timeout=900))
    cs.append(Case("same class name in two modules (4 classes, every order)", special_case(build_same_name_in_two_modules, 4, 1), validate=0, timeout=900))
    scal = ["int", "opt-int", "enum", "list-int", "private"] if tier == "quick" else [k for k in KINDS if k not in REFS]
    refs = ["ref", "opt-ref", "list-ref", "type-ref", "opt-nested-fwd"] if tier == "quick" else list(REFS)
    for k in KINDS:
        cs.append(Case("K=1|f:%s" % k, case(1, [k], ["int", "opt-ref", "list-ref"], {}, 1), validate=0, timeout=600))
    for base1 in (0, 1):
        for k0 in refs + scal[:2]:
            nm = "K=2|Beta%s|f0:%s" % ("(Alpha)" if base1 else "", k0)
            for order in (0, 1):
                cs.append(Case(nm + "|order=%d" % order, case(2, [k0], (refs[:2] + ["int"]) if tier == "quick" else refs[:3] + ["int"], {"base1": base1, "kind0_0": 0, "kind1_0": 0, "order": order}, n_views), key=nm + "|order=%d" % order, validate=0, timeout=900, max_paths=300000))
    if tier != "quick":
        for b1, b2 in [(0, 0), (1, 0), (1, 1), (1, 2)]:
            for k0 in refs:
                nm = "K=3|bases=%d,%d|f0:%s" % (b1 - 1, b2 - 1, k0)
                cs.append(Case(nm, case(3, [k0], [], {"base1": b1, "base2": b2}, 2 if (b1, b2) == (0, 0) else 1), key=nm, validate=0, timeout=3000, max_paths=1000000))
    return cs


def describe(tier):
    return dict(
        rule="sets of dataclasses synthesised from bounded symbolic specifications (K <= 2 quick / 3 thorough classes, base in {none, earlier class}, fields with annotations from "
        "{int, Optional[int], Enum, Optional[Enum], List[int], Set[str], datetime, _private, a class, Optional[class], List/Set[class], Type[class], forward references as "
        "strings and quoted forward references nested inside Optional / List / Type}, every reference target incl. self), plus a model with several direct bases one of which is an ancestor of another and field types that may be left out of the diagram (every subset of its 6 classes), a chain of plain subclasses below a parametrised generic base and two modules defining classes of the same name with string annotations, handed to ClassDiagram in every order; nodes, inheritance edges, association edges and the classification predicates "
        "of every field are compared with an independent typing.get_type_hints analysis; then a bounded symbolic sequence of read-only operations (both sub-diagram "
        "derivations, associations, inheritance_relations, parent_map, get_out_edges, association keys, all_ancestors) with a full snapshot (nodes, edges, fields) "
        "before/after. distinct = distinct (specification, order, view sequence); non-trivial = every path builds a diagram",
        bounds=dict(classes="<= 2 quick / 3 thorough", fields_per_class="<= 2", view_operations="<= 2 (1 for three classes with inheritance among them)"),
        outside=["rendering (_build_rxnode_tree fails with the installed rustworkx_utils; the two rendering tests of the repository fail at baseline)", "annotations outside the listed grammar (other unions, nested containers)"],
        assumptions=["solver role: specifications and view sequences are finite symbolic choices explored exhaustively (no symbolic data)"],
        explanation="bounded exhaustive exploration of model specifications driven by the symx engine",
    )
