"""C10 -- queries are lazy: building evaluates nothing, consuming pulls only what it needs."""
from __future__ import annotations

from dataclasses import dataclass, field
from typing import Any, List

from vlib.core import Case
from vlib.symx import AND, OR, NOT, IMPLIES, IFF, EQ, SUM, B2I

from krrood.entity_query_language.entity import entity, let, and_, or_, not_, set_of, in_, contains
from krrood.entity_query_language.quantify_entity import an, the
from krrood.entity_query_language.predicate import Predicate, symbolic_function
from krrood.entity_query_language.conclusion import Add
from krrood.entity_query_language.entity import inference
from krrood.entity_query_language.rule import refinement, alternative, next_rule
from krrood.entity_query_language.match import entity_matching, match, match_any

from .eqlworld import P, Q, eql_reset, index_of
from . import eqlshapes as E
from .eqlshapes import World, show, relabel_lits, shape_vars, all_vars
from . import c01_soundcomplete as C01
from . import c11_match as C11

PROPERTY = "C10"
LEVEL = "model_checking"

LOG: List[Any] = []
MONITORED = ("a", "b", "kid", "kids", "vals", "m")


@dataclass(eq=False)
class LP(P):
    """P whose attribute reads and method calls are logged"""

    def __getattribute__(self, name):
        if name in MONITORED:
            LOG.append(("read", name))
        return object.__getattribute__(self, name)

    def __bool__(self):
        LOG.append(("bool",))
        return True


class Gen:
    """one-shot generator over a list that logs every element it hands out"""

    def __init__(self, name, items):
        self.name, self.items, self.taken = name, items, 0

    def __iter__(self):
        return self

    def __next__(self):
        if self.taken >= len(self.items):
            raise StopIteration
        self.taken += 1
        LOG.append(("pull", self.name))
        return self.items[self.taken - 1]


class Shelf:
    """a user defined collection whose __iter__ is a generator function: iterating it is a call into user code"""

    def __init__(self, items):
        self.items = items

    def __iter__(self):
        for i in self.items:
            LOG.append(("iter", "shelf"))
            yield i


@dataclass(eq=False)
class LoggedPred(Predicate):
    obj: Any
    bound: Any

    def __call__(self):
        LOG.append(("pred",))
        return object.__getattribute__(self.obj, "a") > self.bound


@symbolic_function
def logged_fn(obj, bound):
    LOG.append(("fn",))
    return object.__getattribute__(obj, "a") > bound


def construction_case(cond, sel, N):
    """(a) building a query reads nothing, calls nothing, advances nothing"""
    kind, svars = sel

    def h(ctx):
        del LOG[:]
        gens = {}

        def wrap(v, items):
            gens[v] = Gen(v, items)
            return gens[v]

        w = World(ctx, cond, svars, N, min_size=1, pclass=LP, wrap=wrap)
        del LOG[:]
        ce = w.build(cond)
        sel_exprs = [w.var(u) for u in svars]
        q = an(entity(sel_exprs[0], ce)) if kind == "entity" else an(set_of(sel_exprs, ce))
        q2 = the(entity(sel_exprs[0], ce)) if kind == "entity" else None
        ctx.observe(list(LOG))
        ctx.note("nonempty", 1)
        return {"construction-touches-nothing": len(LOG) == 0 and all(g.taken == 0 for g in gens.values())}

    return h


def special_construction_case(which):
    def h(ctx):
        del LOG[:]
        xs = [LP(ctx.fresh_int("xa%d" % i)) for i in range(2)]
        gx = Gen("x", xs)
        x = let(LP, gx, name="x")
        k = ctx.fresh_int("k")
        extra = []
        if which == "iterator-literal":
            lit = Gen("lit", [k, k + 1])
            extra.append(lit)
            q = an(entity(x, in_(x.a, lit)))
        elif which == "user-iterable-literal":
            q = an(entity(x, in_(x.a, Shelf([k, k + 1]))))
        elif which == "list-literal-of-objects":
            q = an(entity(x, in_(x, [xs[0], xs[1]])))  # the literal's first element must not be inspected (bool) at build time
        elif which == "object-literal-operand":
            # a constant operand that is one of the user's objects: building the condition does not look at it either
            c0 = LP(ctx.fresh_int("ca"), kid=Q(ctx.fresh_int("cq")))
            del LOG[:]
            q = an(entity(x, or_(x.kid == c0, contains(x.kids, c0), in_(c0, x.kids), not_(x.kid != c0))))
        elif which == "concrete-predicate-instance":
            # a Predicate built from concrete arguments only (a plain instance) used as a condition: it is not called when the
            # query is built either
            c0 = LP(ctx.fresh_int("ca"))
            del LOG[:]
            inst = LoggedPred(c0, k)
            q = an(entity(x, and_(x.a > k, inst)))
        elif which == "predicate":
            q = an(entity(x, LoggedPred(x, k)))
        elif which == "symbolic-function":
            q = an(entity(x, logged_fn(x, k)))
        elif which == "symbolic-function-positional-attr":
            q = an(entity(x, logged_fn(obj=x, bound=x.b)))
        elif which == "rule-tree":
            views = inference(C08V)()
            q = an(entity(views, x.a > k))
            with q:
                Add(views, inference(C08V)(src=x))
                with refinement(x.b > k):
                    Add(views, inference(C08V)(src=x, val=x.a))
                with alternative(x.b < k):
                    Add(views, inference(C08V)(src=x))
                with next_rule(x.a == k):
                    Add(views, inference(C08V)(src=x))
        elif which == "match-with-variable-value":
            C11.reset()
            ps = [C11.MP(a=ctx.fresh_int("pa%d" % i)) for i in range(2)]
            gp = Gen("p", ps)
            gi = Gen("ints", [k, k + 1])
            extra += [gp, gi]
            del LOG[:]
            q = an(entity_matching(C11.MP, gp)(a=let(int, gi)))
        elif which == "match-nested":
            C11.reset()
            qs = [C11.MQ(ctx.fresh_int("qv%d" % i)) for i in range(2)]
            ps = [C11.MP(a=ctx.fresh_int("pa%d" % i), kid=qs[i], kids=list(qs)) for i in range(2)]
            gp = Gen("p", ps)
            extra.append(gp)
            del LOG[:]
            q = an(entity_matching(C11.MP, gp)(a=k, kid=match(C11.MQ)(v=k), kids=match_any([qs[0]])))
        ctx.observe(list(LOG))
        ctx.note("nonempty", 1)
        return {"construction-touches-nothing": len(LOG) == 0 and gx.taken == 0 and all(g.taken == 0 for g in extra)}

    return h


@dataclass(eq=False)
class C08V:
    src: Any = None
    val: Any = None


def consumption_case(cond, N, second_var):
    """(b) pulling k results consumes exactly the prefix of the outermost lazy domain that produced them"""

    def h(ctx):
        del LOG[:]
        gens = {}

        def wrap(v, items):
            gens[v] = Gen(v, items)
            return gens[v]

        w = World(ctx, cond, ("x",), N, pclass=LP, wrap=wrap)
        x = w.var("x")
        q = an(entity(x, w.build(cond)))
        # reference: the full result sequence of an identical fresh query over the same objects (lists, no monitors)
        w2 = World.__new__(World)
        w2.__dict__.update(w.__dict__)
        w2.evars, w2.wrap = {}, None
        full = [w.index("x", r) for r in an(entity(w2.var("x"), w2.build(cond))).evaluate()]
        k = ctx.choice("k", N * (N if second_var else 1) + 2)
        del LOG[:]
        got = []
        it = iter(q.evaluate())
        for _ in range(k):
            try:
                got.append(w.index("x", next(it)))
            except StopIteration:
                break
        taken_x = gens["x"].taken if "x" in gens else 0
        ctx.observe(k, got, full, taken_x)
        ctx.note("nonempty", bool(got))
        v = {}
        v["first-k-results-are-a-prefix"] = got == full[: len(got)]
        if k == 0:
            v["nothing-consumed-before-first-next"] = all(g.taken == 0 for g in gens.values()) and len(LOG) == 0
        elif len(got) == k and got == full[:k]:
            # no read-ahead on the outermost domain: exactly up to the element that produced the k-th result
            v["no-read-ahead-on-outer-domain"] = taken_x == got[-1] + 1
        # a second evaluation started after abandoning the first one: still demand driven
        before = taken_x
        it2 = iter(q.evaluate())
        try:
            first = w.index("x", next(it2))
        except StopIteration:
            first = None
        if first is not None and full:
            v["second-evaluation-first-result"] = first == full[0]
            v["second-evaluation-no-read-ahead"] = gens["x"].taken == max(before, first + 1)
        return v

    return h


def flatten_consumption_case(N, select_owner):
    """flatten(x.kids) where the attribute is itself produced lazily: pulling j results reads a prefix of the inner collection"""

    def h(ctx):
        from krrood.entity_query_language.entity import flatten as _flatten

        del LOG[:]
        n = 1 + ctx.choice("n", N)
        qs = [Q(ctx.fresh_int("q%d" % i)) for i in range(n)]
        g = Gen("kids", qs)
        o = P()
        o.kids = g
        x = let(P, [o], name="x")
        f = _flatten(x.kids)
        kk = ctx.fresh_int("k")
        q = an(entity(x if select_owner else f, f.v > kk))
        built_clean = g.taken == 0 and not LOG
        full = [i for i in range(n) if qs[i].v > kk]
        j = ctx.choice("j", n + 2)
        got_n = 0
        it = iter(q.evaluate())
        for _ in range(j):
            try:
                r = next(it)
            except StopIteration:
                break
            got_n += 1
        ctx.observe(n, j, full, got_n, g.taken)
        ctx.note("nonempty", got_n > 0)
        v = {"construction-touches-nothing": built_clean}
        v["as-many-results-as-asked-for-or-all"] = got_n == min(j, len(full))
        if j == 0:
            v["nothing-consumed-before-first-next"] = g.taken == 0
        elif got_n == j:
            # no read-ahead on the flattened collection: exactly up to the element that produced the j-th result
            v["no-read-ahead-on-the-flattened-collection"] = g.taken == full[j - 1] + 1
        return v

    return h


def forall_consumption_case(N):
    """for_all stops pulling its lazily produced universal domain as soon as no candidate is left"""

    def h(ctx):
        from krrood.entity_query_language.entity import for_all as _for_all

        del LOG[:]
        xv = ctx.fresh_int("xa")
        n = 1 + ctx.choice("n", N)
        ys = [P(ctx.fresh_int("ya%d" % i)) for i in range(n)]
        gy = Gen("y", ys)
        x = let(P, [P(xv)], name="x")
        y = let(P, gy, name="y")
        q = an(entity(x, _for_all(y, x.a <= y.a)))
        built_clean = gy.taken == 0
        res = list(q.evaluate())
        holds = [xv <= o.a for o in ys]
        first_bad = next((i for i, hd in enumerate(holds) if not hd), None)  # (forks on the symbolic values)
        ctx.observe(n, len(res), gy.taken, first_bad)
        ctx.note("nonempty", bool(res))
        v = {"construction-touches-nothing": built_clean}
        v["result-as-quantified"] = len(res) == (1 if first_bad is None else 0)
        # the universal domain is read up to the first value that rules the only candidate out, not further
        v["no-read-ahead-on-the-universal-domain"] = gy.taken == (n if first_bad is None else first_bad + 1)
        return v

    return h


def independent_join_consumption_case(N):
    """two variables with mutually independent conditions: the first result needs only a prefix of BOTH lazy domains"""

    def h(ctx):
        del LOG[:]
        nx, ny = 1 + ctx.choice("nx", N), 1 + ctx.choice("ny", N)
        xs = [P(ctx.fresh_int("xa%d" % i)) for i in range(nx)]
        ys = [P(ctx.fresh_int("ya%d" % i)) for i in range(ny)]
        gx, gy = Gen("x", xs), Gen("y", ys)
        k0, k1 = ctx.fresh_int("k0"), ctx.fresh_int("k1")
        x, y = let(P, gx, name="x"), let(P, gy, name="y")
        q = an(set_of([x, y], x.a > k0, y.a < k1))
        it = iter(q.evaluate())
        try:
            next(it)
            got = 1
        except StopIteration:
            got = 0
        okx = [i for i in range(nx) if xs[i].a > k0]
        oky = [j for j in range(ny) if ys[j].a < k1]
        ctx.observe(nx, ny, okx, oky, got, gx.taken, gy.taken)
        ctx.note("nonempty", got > 0)
        v = {"a-result-iff-both-sides-have-one": (got == 1) == bool(okx and oky)}
        if got == 1:
            v["no-read-ahead-on-the-first-domain"] = gx.taken == okx[0] + 1
            v["no-read-ahead-on-the-second-domain"] = gy.taken == oky[0] + 1
        return v

    return h


def constrained_consumption_case(N, kind):
    """a result-count constraint does not make the evaluation read ahead: the k-th result is handed out as soon as it is found"""

    def h(ctx):
        from krrood.entity_query_language.result_quantification_constraint import AtLeast, Exactly, Range, AtMost

        del LOG[:]
        n = 1 + ctx.choice("n", N)
        xs = [P(ctx.fresh_int("xa%d" % i)) for i in range(n)]
        gx = Gen("x", xs)
        kk = ctx.fresh_int("k")
        bound = 1 + ctx.choice("bound", 3)
        c = {"atleast": AtLeast(bound), "exactly": Exactly(bound), "range": Range(AtLeast(bound), AtMost(bound + 1))}[kind]
        x = let(P, gx, name="x")
        q = an(entity(x, x.a > kk), quantification=c)
        full = [i for i in range(n) if xs[i].a > kk]
        j = 1 + ctx.choice("j", n)
        got = 0
        it = iter(q.evaluate())
        try:
            for _ in range(j):
                next(it)
                got += 1
        except StopIteration:
            pass
        except Exception as e:  # the constraint may fail once the domain is exhausted or the upper bound is exceeded
            ctx.observe("raised %s" % type(e).__name__)
        ctx.observe(n, bound, j, full, got, gx.taken)
        ctx.note("nonempty", got > 0)
        v = {}
        if got == j:
            v["no-read-ahead-under-a-count-constraint"] = gx.taken == full[j - 1] + 1
        return v

    return h


def cases(tier, seed):
    N = 2 if tier == "quick" else 4
    cs = []
    seen = set()
    # (a) construction: every C01 shape (one selection each)
    for cond, core in C01.shape_list(tier):
        if tier == "quick" and not core:
            continue
        if "the" in E.features(cond):
            continue
        sels = C01.selections(cond)
        if not sels:
            continue
        sel = sels[-1]
        name = "build %s(%s|%s)" % (sel[0], ",".join(sel[1]), show(cond))
        if name in seen:
            continue
        seen.add(name)
        cs.append(Case(name, construction_case(cond, sel, 1), reset=eql_reset, validate=1, timeout=120))
    for which in ("iterator-literal", "concrete-predicate-instance", "user-iterable-literal", "list-literal-of-objects", "object-literal-operand", "predicate", "symbolic-function", "symbolic-function-positional-attr", "rule-tree", "match-with-variable-value", "match-nested"):
        cs.append(Case("build " + which, special_construction_case(which), reset=eql_reset, validate=1))
    # (b) consumption
    x, y = "x", "y"
    A = lambda v, op="==", i=0: ("cmp", op, ("a", v), ("lit", i))
    one = [A(x, ">"), ("and", A(x, ">"), ("cmp", "<=", ("a", x), ("b", x))), ("or", A(x), A(x, ">", 1)), ("not", A(x)), ("in", ("a", x), (0, 1)), ("pred", x, 0),
           ("and", ("not", A(x)), ("or", A(x, ">", 1), ("cmp", "<", ("b", x), ("lit", 2))))]
    two = [("pred2", x, y), ("cmp", "<", ("a", x), ("a", y)), ("and", A(x, ">"), A(y, "<", 1)), ("and", A(x, ">"), ("cmp", "==", ("a", x), ("a", y))), ("exists", y, ("cmp", "==", ("a", x), ("a", y)))]
    for c in one:
        c = relabel_lits(c)
        cs.append(Case("consume entity(x|%s)|N<=%d" % (show(c), N + 1), consumption_case(c, N + 1, False), key="consume entity(x|%s)" % show(c), reset=eql_reset, validate=1, timeout=300, max_paths=100000))
    for c in two:
        c = relabel_lits(c)
        cs.append(Case("consume entity(x|%s)|N<=%d" % (show(c), N), consumption_case(c, N, True), key="consume entity(x|%s)" % show(c), reset=eql_reset, validate=1, timeout=300, max_paths=100000))
    cs.append(Case("consume a join of two independent conditions|N<=%d" % (N + 1), independent_join_consumption_case(N + 1), key="consume independent join", reset=eql_reset, validate=1, timeout=300))
    cs.append(Case("consume for_all over a lazily produced universal domain|N<=%d" % (N + 1), forall_consumption_case(N + 1), key="consume for_all", reset=eql_reset, validate=1, timeout=300))
    for kind in ("atleast", "exactly", "range"):
        cs.append(Case("consume under a result-count constraint|%s|N<=%d" % (kind, N + 1), constrained_consumption_case(N + 1, kind), key="consume constrained|" + kind, reset=eql_reset, validate=1, timeout=300))
    for so in (False, True):
        nm = "consume flatten(x.kids) over a lazily produced attribute|select=%s" % ("x" if so else "element")
        cs.append(Case(nm + "|N<=%d" % (N + 1), flatten_consumption_case(N + 1, so), key=nm, reset=eql_reset, validate=1, timeout=300, max_paths=100000))
    return cs


def describe(tier):
    return dict(
        rule="(a) every C01 query shape, plus iterator-valued and object-list literals, predicates, symbolic functions, a rule tree and pattern matches "
        "(incl. a variable as keyword value), is built with monitors armed: one-shot generator domains that log every element handed out, objects that log "
        "attribute reads / method calls / truth tests, logging predicates; the log must be empty when construction returns. "
        "(b) data symbolic, k symbolic: pull k results and stop; they are a prefix of the full result list of a fresh identical query, the outermost lazy domain "
        "was advanced exactly to the element that produced the k-th result (no read-ahead), nothing at all is consumed before the first next(), and a second "
        "evaluation started after abandoning the first is demand driven too; for_all reads its universal (generator) domain only up to the value that rules the last candidate out; a result-count constraint (AtLeast / Exactly / Range) does not delay results; flatten(x.kids) over an attribute that is itself a one-shot generator is read exactly up to the element that produced the last pulled result. non-trivial = >= 2 feasible paths and a non-empty result",
        bounds=dict(objects_per_domain="<= 3 (quick) / <= 5 (thorough) for one-variable shapes, <= 2/4 for two-variable shapes", values="unbounded integers", k="0..all+1"),
        outside=["consumption of inner (non-outermost) domains beyond 'nothing before the first next()'", "laziness of ORM/SQL evaluation"],
        assumptions=["the engine's loop order puts x outermost for the shapes of part (b) (x is the left-most variable)"],
    )
