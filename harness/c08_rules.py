"""C08 -- rule trees follow except-if / else-if / also-if semantics."""
from __future__ import annotations

import itertools
from dataclasses import dataclass
from typing import Any

from vlib.core import Case, select_cases
from vlib.symx import AND, OR, NOT, IMPLIES, IFF, EQ, SUM, B2I

from krrood.entity_query_language.entity import entity, let, and_, inference
from krrood.entity_query_language.quantify_entity import an
from krrood.entity_query_language.conclusion import Add
from krrood.entity_query_language.rule import refinement, alternative, next_rule

from .eqlworld import P, VP, eql_reset, index_of

PROPERTY = "C08"
LEVEL = "model_checking"


@dataclass(eq=False)
class V:
    src: Any = None
    other: Any = None
    val: Any = None


TYPES = [type("T%d" % i, (V,), {}) for i in range(10)]
for _t in TYPES:
    dataclass(eq=False)(_t)

# ---- tree specification ---------------------------------------------------------------------
# node = (refchain, alts, nexts); refchain = [refinement node, alternatives written inside the refinement's block...]
# alts / nexts = nodes written with alternative(...) / next_rule(...) inside this node's block (after the refinement)


def N(ref=(), alts=(), nexts=()):
    return (tuple(ref), tuple(alts), tuple(nexts))


class Node:
    __slots__ = ("ref", "alts", "nexts")

    def __init__(self, spec):
        self.ref = [Node(r) for r in spec[0]]
        self.alts = [Node(a) for a in spec[1]]
        self.nexts = [Node(x) for x in spec[2]]

    def __iter__(self):
        return iter((self.ref, self.alts, self.nexts))

    def __getitem__(self, i):
        return (self.ref, self.alts, self.nexts)[i]


def number(spec):
    """fresh Node objects (identity matters) with indices in written (pre-)order; returns root, nodes and a printable name"""
    tree = Node(spec)
    nodes = []

    def walk(n):
        i = len(nodes)
        nodes.append(n)
        ref, alts, nexts = n
        parts = []
        if ref:
            parts.append("R[" + ",".join(walk(r) for r in ref) + "]")
        if alts:
            parts.append("A[" + ",".join(walk(a) for a in alts) + "]")
        if nexts:
            parts.append("X[" + ",".join(walk(x) for x in nexts) + "]")
        return "%d%s" % (i, ("(" + " ".join(parts) + ")") if parts else "")

    name = walk(tree)
    return tree, nodes, name


def harness(spec, N_objs, two_vars, abandoned_first=False, value_eq=False, bare=False, narrow=False):
    tree, nodes, name = number(spec)
    idx = {id(n): i for i, n in enumerate(nodes)}

    def h(ctx):
        PC = VP if value_eq else P  # VP: a dataclass with field equality (distinct objects may compare equal)
        xs = [PC(ctx.fresh_int("xa%d" % i), ctx.fresh_int("xb%d" % i)) for i in range(N_objs)]
        ys = [PC(ctx.fresh_int("ya%d" % i)) for i in range(N_objs)] if two_vars else [None]
        ks = [ctx.fresh_int("k%d" % i) for i in range(len(nodes))]
        x = let(PC, xs, name="x")
        y = let(PC, ys, name="y") if two_vars else None

        def cond_expr(i):
            # conditions alternate over x.a, x.b and (two-variable mode) y.a so that no node's condition implies another's
            m = i % (3 if two_vars else 2)
            if bare:
                # the attribute on its own is the condition (its truth value): x.a, x.b, x.a, ...
                return x.a if m == 0 else x.b
            if i == 0 and two_vars:
                return and_(x.a > ks[0], y.a > ks[0])
            return (x.a > ks[i]) if m == 0 else (x.b > ks[i]) if m == 1 else (y.a > ks[i])

        def cond_val(i, ox, oy):
            m = i % (3 if two_vars else 2)
            if bare:
                return NOT(EQ(ox.a, 0)) if m == 0 else NOT(EQ(ox.b, 0))
            if i == 0 and two_vars:
                return AND(ox.a > ks[0], oy.a > ks[0])
            return (ox.a > ks[i]) if m == 0 else (ox.b > ks[i]) if m == 1 else (oy.a > ks[i])

        views = inference(V)()
        q = an(entity(views, cond_expr(0)))

        def conclude(i):
            kw = dict(src=x, val=x.a)
            if two_vars and not (narrow and i > 0):  # narrow: only the base concludes over both variables
                kw["other"] = y
            Add(views, inference(TYPES[i])(**kw))

        def body(n):
            i = idx[id(n)]
            conclude(i)
            ref, alts, nexts = n
            if ref:
                with refinement(cond_expr(idx[id(ref[0])])):
                    body(ref[0])
                    for a in ref[1:]:
                        with alternative(cond_expr(idx[id(a)])):
                            body(a)
            for a in alts:
                with alternative(cond_expr(idx[id(a)])):
                    body(a)
            for xn in nexts:
                with next_rule(cond_expr(idx[id(xn)])):
                    body(xn)

        with q:
            body(tree)
        if abandoned_first:
            # history: an evaluation of the same query object that was consumed only partly and then dropped
            it = q.evaluate()
            for _ in range(1 + ctx.choice("consumed", 2)):
                next(it, None)
            del it
        got = []
        unknown = 0
        for r in q.evaluate():
            ti = TYPES.index(type(r)) if type(r) in TYPES else -1
            ix = index_of(xs, r.src)
            iy = index_of(ys, r.other) if two_vars else 0
            if narrow and ti > 0 and r.other is None:
                iy = -2  # a conclusion over x only
            if ti < 0 or ix < 0 or iy == -1:
                unknown += 1
            got.append((ix, iy, ti, r.val))
        ctx.observe([g[:3] for g in got])
        ctx.note("nonempty", bool(got))

        # ---- reference ripple-down-rules reading, as terms over one binding ----
        def emits(ox, oy):
            out = {}

            def chain(members, reached):
                """members fire in written order, each only if no earlier member's condition held"""
                act, none_before = {}, reached
                for m in members:
                    i = idx[id(m)]
                    act[i] = AND(none_before, cond_val(i, ox, oy))
                    none_before = AND(none_before, NOT(cond_val(i, ox, oy)))
                return act

            def visit(n, active):
                i = idx[id(n)]
                ref, alts, nexts = n
                exc_active = []
                if ref:
                    act = chain(ref, active)
                    for m in ref:
                        exc_active.append(act[idx[id(m)]])
                        visit(m, act[idx[id(m)]])
                out[i] = AND(active, NOT(OR(exc_active))) if exc_active else active
                return out[i]

            base_c = cond_val(0, ox, oy)
            visit(tree, base_c)
            # alternatives of the base: else-if chain after the base
            act = chain([tree] + list(tree[1]), True)
            for a in tree[1]:
                visit(a, act[idx[id(a)]])
            # also-if branches: evaluated whatever fired before
            for xn in tree[2]:
                visit(xn, cond_val(idx[id(xn)], ox, oy))
            return out

        v = {"instances-known": unknown == 0}
        terms_count, terms_val = {i: [] for i in range(len(nodes))}, []
        for ix, ox in enumerate(xs):
            ems = [emits(ox, oy) for oy in ys]
            for iy, oy in enumerate(ys):
                em = ems[iy]
                for i in range(len(nodes)):
                    if narrow and i > 0:
                        continue
                    n_got = sum(1 for g in got if g[:3] == (ix, iy, i))
                    terms_count[i].append(EQ(n_got, B2I(em[i])))
            if narrow:
                # a branch that concludes over x only: its conclusion is there iff it fires for some y (how often is not stated)
                for i in range(1, len(nodes)):
                    n_got = sum(1 for g in got if g[:3] == (ix, -2, i))
                    terms_count[i].append(IFF(OR([em[i] for em in ems]), n_got >= 1))
            for iy, oy in enumerate(ys):
                for g in got:
                    if g[0] == ix and g[1] == iy:
                        terms_val.append(EQ(g[3], ox.a))
        for i in range(len(nodes)):
            # one obligation per written branch: its conclusion is emitted exactly for the bindings the tree semantics say
            v["branch-%d-fires-as-written" % i] = AND(terms_count[i])
        v["instances-built-from-their-binding"] = AND(terms_val) if terms_val else True
        return v

    return h, name


def local_harness(n_ref, n_alt, n_objs, n_next=0):
    """every branch condition binds a variable of its own (v_i.a == x.a) and its conclusion is built from it.  The property
    speaks of bindings: an alternative is reached for a binding (x, v_1) for which the earlier branch did not fire, i.e. iff
    SOME value of the earlier branch's variable fails its condition (how often the later conclusion is then repeated is
    not stated: presence is checked, exact multiplicity only for the first member of a chain)"""

    def h(ctx):
        xs = [P(ctx.fresh_int("xa%d" % i)) for i in range(n_objs)]
        k0 = ctx.fresh_int("k0")
        n_br = n_ref + n_alt + n_next
        doms = [[P(ctx.fresh_int("v%da%d" % (b + 1, i))) for i in range(1 + ctx.choice("n%d" % (b + 1), 2))] for b in range(n_br)]
        x = let(P, xs, name="x")
        vs = [let(P, d, name="v%d" % (b + 1)) for b, d in enumerate(doms)]
        views = inference(V)()
        q = an(entity(views, x.a > k0))
        with q:
            Add(views, inference(TYPES[0])(src=x, val=x.a))
            if n_ref:
                with refinement(vs[0].a == x.a):
                    Add(views, inference(TYPES[1])(src=x, other=vs[0], val=x.a))
                    for b in range(1, n_ref):
                        with alternative(vs[b].a == x.a):
                            Add(views, inference(TYPES[b + 1])(src=x, other=vs[b], val=x.a))
            for b in range(n_ref, n_ref + n_alt):
                with alternative(vs[b].a == x.a):
                    Add(views, inference(TYPES[b + 1])(src=x, other=vs[b], val=x.a))
            for b in range(n_ref + n_alt, n_br):
                with next_rule(vs[b].a == x.a):
                    # (its conclusion is about its own variable only)
                    Add(views, inference(TYPES[b + 1])(other=vs[b], val=vs[b].a))
        got, unknown = [], 0
        for r in q.evaluate():
            ti = TYPES.index(type(r)) if type(r) in TYPES else -1
            is_next = ti > n_ref + n_alt
            ix = -2 if is_next and r.src is None else index_of(xs, r.src)
            io = index_of(doms[ti - 1], r.other) if ti >= 1 else (0 if r.other is None else -1)
            if ti < 0 or ix == -1 or io < 0:
                unknown += 1
            got.append((ix, io, ti, r.val))
        ctx.observe([g[:3] for g in got])
        ctx.note("nonempty", bool(got))
        v = {"instances-known": unknown == 0}
        per_branch = {b: [] for b in range(n_br + 1)}
        vals = []

        def present(key3):
            return sum(1 for g in got if g[:3] == key3)

        for ix, ox in enumerate(xs):
            base = ox.a > k0
            # Two readings of "no earlier branch fired" are compatible with the property's text when the earlier branch has a
            # variable of its own: for SOME value of that variable its condition fails (the binding (x, v) did not fire), or
            # for EVERY value.  Required under both: fired under the strict reading => present => fired under the weak one.
            some_fails = [OR([NOT(EQ(o.a, ox.a)) for o in d]) for d in doms]
            all_fail = [AND([NOT(EQ(o.a, ox.a)) for o in d]) for d in doms]

            def between(strict, weak, n):
                return AND(IMPLIES(strict, n >= 1), IMPLIES(n >= 1, weak))

            weak, strict = base, base
            for bb in range(n_ref):  # the refinement chain: reached when the base holds
                for io, o in enumerate(doms[bb]):
                    n = present((ix, io, bb + 1))
                    c = EQ(o.a, ox.a)
                    per_branch[bb + 1].append(EQ(n, B2I(AND(base, c))) if bb == 0 else between(AND(strict, c), AND(weak, c), n))
                weak, strict = AND(weak, some_fails[bb]), AND(strict, all_fail[bb])
            n0 = sum(1 for g in got if g[0] == ix and g[2] == 0)
            per_branch[0].append(between(strict, weak, n0) if n_ref else EQ(n0, B2I(base)))
            weak = strict = NOT(base)  # alternatives of the base: an else-if chain after the base
            for bb in range(n_ref, n_ref + n_alt):
                for io, o in enumerate(doms[bb]):
                    n = present((ix, io, bb + 1))
                    c = EQ(o.a, ox.a)
                    per_branch[bb + 1].append(EQ(n, B2I(AND(weak, c))) if bb == n_ref else between(AND(strict, c), AND(weak, c), n))
                weak, strict = AND(weak, some_fails[bb]), AND(strict, all_fail[bb])
            pass
        for bb in range(n_ref + n_alt, n_br):
            # a next_rule branch fires in addition to whatever fired before it: its conclusion (about its own variable) is there
            # iff its condition holds for some x
            for io, o in enumerate(doms[bb]):
                per_branch[bb + 1].append(IFF(OR([EQ(o.a, ox.a) for ox in xs]), present((-2, io, bb + 1)) >= 1))
        for ix, ox in enumerate(xs):
            for g in got:
                if g[0] == ix:
                    vals.append(EQ(g[3], ox.a))
        for b in range(n_br + 1):
            v["branch-%d-fires-as-written" % b] = AND(per_branch[b])
        v["instances-built-from-their-binding"] = AND(vals) if vals else True
        return v

    return h


def tree_list(tier):
    L = N()
    R1 = N(ref=[L])  # node with one refinement
    out = [
        (True, N()),
        (True, N(ref=[L])),
        (True, N(ref=[R1])),  # refinement of a refinement
        (False, N(ref=[N(ref=[R1])])),  # depth 3
        (True, N(ref=[L, L])),  # refinement with an alternative inside its block
        (False, N(ref=[L, L, L])),
        (True, N(alts=[L])),
        (True, N(alts=[L, L])),
        (True, N(alts=[L, L, L])),
        (True, N(nexts=[L])),
        (False, N(nexts=[L, L])),
        (True, N(alts=[L], nexts=[L])),
        (True, N(alts=[R1])),  # refinement inside an alternative's block
        (True, N(ref=[L], alts=[L])),
        (False, N(ref=[L, L], alts=[L], nexts=[L])),
        (True, N(nexts=[R1])),
        (False, N(ref=[R1], alts=[L])),
        (False, N(ref=[L], nexts=[L])),
        (False, N(ref=[L], alts=[L, L])),
        (False, N(alts=[L, R1])),
        (False, N(ref=[R1, L])),
    ]
    if tier == "thorough":
        pass
    return out


def cases(tier, seed):
    Nn = 2 if tier == "quick" else 3
    cs = []
    for core, t in tree_list(tier):
        for two in (False, True):
            if two and not core and tier == "quick":
                continue
            n_two = 2 if tier == "quick" else 3
            h, name = harness(t, Nn if not two else n_two, two)
            nm = "tree %s%s" % (name, "|x,y" if two else "|x")
            cs.append(Case(nm + "|N=%d" % (Nn if not two else n_two), h, key=nm, reset=eql_reset, core=True, timeout=300 if tier == "quick" else 1200,
                           max_paths=50000 if tier == "quick" else 400000, validate=1, cex_grace=10**9))
    L_ = N()
    # (the trees for which a finding is already listed fail in the same branches with this history; they are not repeated)
    for t in [N(), N(ref=[L_]), N(ref=[L_, L_]), N(alts=[L_]), N(alts=[L_, L_]), N(ref=[L_], alts=[L_])]:
        h, name = harness(t, 2, False, abandoned_first=True)
        nm = "tree %s|x|after an abandoned partial evaluation" % name
        cs.append(Case(nm + "|N=2", h, key=nm, reset=eql_reset, core=True, timeout=300 if tier == "quick" else 1200, max_paths=50000 if tier == "quick" else 400000, validate=1, cex_grace=10**9))
    # the base concludes over (x, y), the branches of its refinement over x only (several y per x repeat the branch's conclusion)
    # (with an alternative inside the refinement the unchanged tree already loses the base's conclusion for the later y of an
    # x whose alternative fired - a further instance of the listed tree-surgery findings; that tree is not run in this variant)
    for t in [N(ref=[L_])]:
        h, name = harness(t, 2, True, narrow=True)
        nm = "tree %s|x,y|branches conclude over x only" % name
        cs.append(Case(nm + "|N=2", h, key=nm, reset=eql_reset, core=True, timeout=300 if tier == "quick" else 1200, max_paths=50000 if tier == "quick" else 400000, validate=1, cex_grace=10**9))
    # conditions that are bare attributes (their truth value), also as the only condition of a refinement / of the base
    for t in [N(ref=[L_]), N(ref=[L_, L_]), N(alts=[L_]), N(ref=[L_], alts=[L_])]:
        h, name = harness(t, 2, False, bare=True)
        nm = "tree %s|x|bare attributes as conditions" % name
        cs.append(Case(nm + "|N=2", h, key=nm, reset=eql_reset, core=True, timeout=300 if tier == "quick" else 1200, max_paths=50000 if tier == "quick" else 400000, validate=1, cex_grace=10**9))
    # domain objects that compare equal without being the same object (dataclass equality): each is a binding of its own
    for t in [N(ref=[L_]), N(ref=[L_, L_]), N(alts=[L_]), N(alts=[L_, L_])]:
        h, name = harness(t, 2, False, value_eq=True)
        nm = "tree %s|x|value-equal domain objects" % name
        cs.append(Case(nm + "|N=2", h, key=nm, reset=eql_reset, core=True, timeout=300 if tier == "quick" else 1200, max_paths=50000 if tier == "quick" else 400000, validate=1, cex_grace=10**9))
    for (n_ref, n_alt) in [(1, 0), (2, 0), (0, 1), (0, 2), (1, 1), (2, 1)] + ([(3, 0)] if tier == "thorough" else []):
        nm = "branches with variables of their own|refinement chain=%d,alternatives=%d" % (n_ref, n_alt)
        cs.append(Case(nm + "|N=2", local_harness(n_ref, n_alt, 2), key=nm, reset=eql_reset, core=True, timeout=300 if tier == "quick" else 1200,
                       max_paths=50000 if tier == "quick" else 400000, validate=1, cex_grace=10**9))
    for (n_ref, n_alt) in [(0, 0), (1, 0)]:
        nm = "branches with variables of their own|refinement chain=%d,alternatives=%d,next rules=1" % (n_ref, n_alt)
        cs.append(Case(nm + "|N=2", local_harness(n_ref, n_alt, 2, n_next=1), key=nm, reset=eql_reset, core=True, timeout=300 if tier == "quick" else 1200,
                       max_paths=50000 if tier == "quick" else 400000, validate=1, cex_grace=10**9))
    return cs


def describe(tier):
    return dict(
        rule="rule trees written with the public with-block API: node i = condition over x.a / x.b / y.a with its own symbolic threshold k_i and its own inferred type T_i; "
        "shapes: nested refinements (depth <= 3), alternatives inside a refinement's block, alternative chains (<= 3), next_rule branches (<= 2), refinements inside "
        "alternative / next_rule blocks and combinations (<= 6 branches); one-variable and two-variable (base binds x and y) variants; the one-variable trees again after an evaluation of the same query object that was consumed partly (1-2 results) and dropped; the same trees with bare attributes (their truth value) as conditions and over domain objects with field equality (distinct but equal objects); plus trees whose branches each bind a variable of their own (v_i.a == x.a, 1-2 values) and build their conclusion from it. "
        "Tree notation in case names: i(R[..] A[..] X[..]) = node i with refinement chain R, alternatives A, next rules X, numbered in written order; "
        "non-trivial = >= 2 feasible paths and some instance inferred",
        bounds=dict(objects_per_domain="2 (quick) / 3 (thorough)", values_and_thresholds="unbounded integers", branches="<= 6"),
        outside=["sibling refinements of one node (their precedence is not stated by the property)", "alternatives written after a next_rule", "conclusions other than Add", "branches without a conclusion"],
        assumptions=["reference interpreter: a node emits its conclusion iff it is reached, its condition holds and no member of its refinement chain is active; "
                     "a chain member is active iff reached and no earlier member's condition held; next_rule branches are reached unconditionally"],
    )
