"""C20 -- krrood never extends the lifetime of user objects (observed on the real reference counting and gc)."""
from __future__ import annotations

import gc
import weakref

from vlib.core import Case

from krrood.entity_query_language.entity import entity, let
from krrood.entity_query_language.quantify_entity import an
from krrood.entity_query_language.symbol_graph import SymbolGraph
from krrood.entity_query_language import symbolic as S
from krrood.entity_query_language.rxnode import RWXNode

from . import sgworld as W
from .eqlworld import index_of

PROPERTY = "C20"
LEVEL = "exploration"

TYPES = ["T", "Sub", "Org", "Human"]


def history_case(L, first_ops):
    def h(ctx):
        g = W.fresh_graph()
        ids = W.VirtualIds(ctx)
        ids.install()
        try:
            objs, census, trace, kept = [], [], [], []
            yielded = []  # weak references to the instances that some evaluated query has returned
            tables0 = (len(S.SymbolicExpression._id_expression_map_), RWXNode._graph.num_nodes())
            v = {"no-exception": True}

            def live_of(cls):
                return [o for o in objs if o is not None and isinstance(o, cls)]

            def do(op):
                trace.append(op)
                k = op[0]
                if k == "create":
                    o = W.create(ids, W.CLASSES[op[1]], len(objs))
                    objs.append(o)
                    census.append((weakref.ref(o), W.CLASSES[op[1]]))
                elif k == "relate":
                    a, b = objs[op[1]], objs[op[2]]
                    if isinstance(a, W.Human):
                        a.works_for = b
                    else:
                        a.sub_org_of.append(b)
                elif k == "role":  # macro: a role (Boss) of a human is related to an org; the inference reaches the role taker
                    hh, oo = W.create(ids, W.Human, len(objs)), W.create(ids, W.Org, len(objs) + 1)
                    bb = W.create(ids, W.Boss, person=hh)
                    for o in (hh, oo, bb):
                        objs.append(o)
                        census.append((weakref.ref(o), type(o)))
                    bb.head_of = oo
                    del hh, oo, bb
                elif k == "drop":
                    W.drop(ids, objs, op[1])
                elif k == "collect":
                    gc.collect()
                elif k == "declare":  # a domain-less query that is built but never evaluated; the program keeps or drops it
                    q = an(entity(let(W.CLASSES[op[1]], None)))
                    if op[2]:
                        kept.append(q)
                elif k == "query":  # evaluated completely, results and query dropped at once
                    cls = W.CLASSES[op[1]]
                    res = list(an(entity(let(cls, None))).evaluate())
                    yielded.extend(weakref.ref(r) for r in res)
                    del res
                elif k == "query-explicit":  # explicit domain, evaluated completely
                    cls = W.CLASSES[op[1]]
                    dom = live_of(cls)
                    x = let(cls, dom)
                    res = list(an(entity(x)).evaluate())
                    yielded.extend(weakref.ref(r) for r in res)
                    del res, x, dom
                elif k == "query-partial":  # only the first result is pulled, the iterator is abandoned
                    cls = W.CLASSES[op[1]]
                    it = iter(an(entity(let(cls, None))).evaluate())
                    r = next(it, None)
                    if r is not None:
                        yielded.append(weakref.ref(r))  # only this one was returned; the others were never asked for
                    del it, r

            try:
                for s in range(L):
                    live = [i for i, o in enumerate(objs) if o is not None]
                    hs = [i for i in live if isinstance(objs[i], W.Human)]
                    os_ = [i for i in live if isinstance(objs[i], W.Org)]
                    opts = ([("create", t) for t in TYPES] + [("relate", a, b) for a in hs for b in os_] + [("relate", a, b) for a in os_ for b in os_ if a != b]
                            + [("drop", i) for i in live] + [("collect",)] + [("declare", t, keep) for t in ("T", "Org") for keep in (0, 1)]
                            + [("query", t) for t in ("T", "Org", "Human")] + [("query-explicit", "T"), ("query-partial", "T"), ("role",)])
                    if s < len(first_ops):
                        op = first_ops[s]
                        if op not in opts:
                            ctx.assume(False)
                    else:
                        op = opts[ctx.choice("op%d" % s, len(opts))]
                    do(op)
                # the program lets go of everything it holds: instances, queries
                for i in range(len(objs)):
                    W.drop(ids, objs, i)
                del kept[:]
                gc.collect()
            except Exception as e:
                v["no-exception"] = False
                ctx.observe("raised %s: %s" % (type(e).__name__, str(e)[:100]))
                return v
            tables1 = (len(S.SymbolicExpression._id_expression_map_), RWXNode._graph.num_nodes())
            alive = [(c.__name__) for (w, c) in census if w() is not None]
            # instances that an evaluated query returned (see the listed finding) and, transitively, the instances their
            # fields refer to: those are kept alive by the user-level references of a pinned instance, not by krrood
            pinned = [y() for y in yielded if y() is not None]
            frontier = list(pinned)
            while frontier:
                o = frontier.pop()
                for val in vars(o).values():
                    for x in (list(val) if isinstance(val, (list, set, tuple)) else [val]):
                        if isinstance(x, W.Symbol) and not any(x is p_ for p_ in pinned):
                            pinned.append(x)
                            frontier.append(x)
            was_pinned = lambda o: any(p_ is o for p_ in pinned)
            leaked_ranged = [c.__name__ for (w, c) in census if w() is not None and was_pinned(w())]
            leaked_other = [c.__name__ for (w, c) in census if w() is not None and not was_pinned(w())]
            del pinned, frontier
            ctx.observe([list(map(str, o)) for o in trace], alive)
            ctx.note("nonempty", bool(census))
            v["dropped-instances-are-reclaimed"] = not leaked_other
            v["dropped-instances-are-reclaimed[an-evaluated-query-returned-them-or-an-instance-that-refers-to-them]"] = not leaked_ranged
            # what a domain-less variable sees afterwards, and what the registry keeps: exactly the instances that are still alive
            try:
                seen = {t: list(an(entity(let(W.CLASSES[t], None))).evaluate()) for t in ("T", "Org", "Human", "Other")}
            except Exception as e:
                v["no-exception"] = False
                ctx.observe("final query raised %s: %s" % (type(e).__name__, str(e)[:100]))
                return v
            alive_objs = [w() for (w, c) in census if w() is not None]
            v["reclaimed-instances-are-gone-from-domain-less-variables"] = all(
                r is not None and any(r is o for o in alive_objs) for res in seen.values() for r in res)
            del seen, alive_objs
            st = W.graph_state(SymbolGraph())
            n_alive = sum(1 for (w, c) in census if w() is not None)
            v["registry-keeps-nothing-of-reclaimed-instances"] = st["nodes"] == n_alive and st["instance_index"] == n_alive and (
                n_alive > 0 or (st["per_class"] == 0 and st["relation_index"] == 0 and st["edges"] == 0))
            if not v["registry-keeps-nothing-of-reclaimed-instances"]:
                ctx.observe(st, n_alive)
            # krrood's process-wide expression tables after every query object was dropped
            built_queries = any(o[0] in ("declare", "query", "query-explicit", "query-partial") for o in trace)
            # (the final census queries above were built after tables1 was taken)
            v["expression-tables-do-not-grow" + ("[queries-were-built]" if built_queries else "")] = tables1 == tables0
            return v
        finally:
            ids.uninstall()

    return h


def cases(tier, seed):
    L = 3 if tier == "quick" else 5
    cs = []
    firsts = [[("create", t)] for t in TYPES] + [[("declare", "T", 1)], [("query", "T")], [("role",)]]
    if tier != "quick":
        firsts = [[("create", t), op2] for t in TYPES for op2 in [("create", "T"), ("create", "Org"), ("drop", 0), ("query", "T"), ("query-explicit", "T"), ("declare", "T", 1), ("declare", "T", 0)]]
    for f in firsts:
        nm = "history|first=%s" % "+".join(":".join(map(str, o)) for o in f)
        cs.append(Case(nm + "|L=%d" % L, history_case(L, f), key=nm, reset=W.world_reset, validate=0, timeout=900 if tier == "quick" else 3000, max_paths=400000, cex_grace=10**9))
    return cs


def describe(tier):
    L = 3 if tier == "quick" else 5
    return dict(
        rule="histories of %d operations (bounded symbolic choices among create T/Sub/Org/Human, relate, a role of a human related to an org, drop reference i, gc.collect(), declare a domain-less query without "
        "evaluating it (kept or dropped), evaluate a domain-less / explicit-domain query completely, evaluate partially and abandon) on the real SymbolGraph, reference "
        "counting and collector; then the program drops every instance and query and collects. Checked: weak references to dropped instances are dead (separately for "
        "instances that an evaluated query has returned), they are absent from domain-less variables, the registry (graph nodes, per-class lists, instance index, relation "
        "index, edges) is empty when nothing is alive, and the process-wide expression tables are back to their size. distinct = distinct histories; "
        "non-trivial = at least one instance was created" % L,
        bounds=dict(history_length=L, classes="T, Sub, Org, Human", ids="every reuse pattern of dead ids"),
        outside=["heap reachability is observed through the real collector on each explored history, not derived symbolically", "histories longer than %d" % L, "threads"],
        assumptions=["stub: id() contract (see C13)", "automatic gc is disabled during a history; cyclic garbage is collected by the explicit collect operations"],
        explanation="bounded exhaustive exploration of histories driven by the symx engine; all symbolic variables are finite choices",
    )
