#!/bin/bash
# Offline setup: overlay venv on top of /venv (which has krrood editable -> /repo/src) + z3 + crosshair.
set -e
cd "$(dirname "$0")"
V=/verif/.venv
if [ ! -x "$V/bin/python" ] || ! "$V/bin/python" -c "import z3, krrood, crosshair" 2>/dev/null; then
  rm -rf "$V"
  /venv/bin/python -m venv "$V"
  SP=$("$V/bin/python" -c "import sysconfig; print(sysconfig.get_paths()['purelib'])")
  echo "import site; site.addsitedir('/venv/lib/python3.12/site-packages')" > "$SP/_overlay.pth"
  PIP_NO_INDEX=1 "$V/bin/pip" install -q --no-index --find-links /opt/veriftools/wheels z3-solver crosshair-tool
fi
"$V/bin/python" -c "import z3, krrood, crosshair; print('setup ok: z3', z3.get_version_string(), 'krrood', krrood.__file__)"
